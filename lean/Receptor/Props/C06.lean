import Receptor.Proofs.Flood
import Receptor.Generated.Facts
/-!
# C06 — routing knowledge never regresses; updates are applied and relayed at most once
-/
namespace Receptor.Flood

/-- the staleness rule the source currently implements (regenerated facts) -/
def staleOfFacts : StaleRule :=
  { olderEpochDrops := Receptor.Facts.route_stale_epoch = "ri.UpdateEpoch < ni.Epoch",
    sameEpochLeDrops := Receptor.Facts.route_stale_seq = "ri.UpdateEpoch == ni.Epoch && ri.UpdateSequence <= ni.Sequence",
    dedupFirst := Receptor.Facts.route_dedup_first,
    excludeReceiver := Receptor.Facts.route_relay_call = "s.flood(message, recvConn)" }

/-- **Tie (translator)**: the two staleness tests and their operators, the dedup by UpdateID
before any processing (and before the seen-table insert under the same lock), the relay
through `flood(message, recvConn)` after `ForwardingNode` was rewritten, the self-origin
filter ahead of everything else. -/
theorem C06_facts : staleOfFacts = stdStale
    ∧ Receptor.Facts.route_self_filter = "ri.NodeID == s.nodeID;ri.UpdateEpoch == s.epoch;ri.SuspectedDuplicate == s.epoch;ri.UpdateEpoch > s.epoch"
    ∧ Receptor.Facts.route_forwarder_rewrite = true
    ∧ Receptor.Facts.route_seen_atomic = true := by decide

/-- **Tie (translator)** for the expiry event of `Ev.expire`: `expireSeenUpdates` writes nothing but the seen table (entries
deleted, under the table's lock) — in particular not the recorded stamps. -/
theorem C06_facts_expiry : Receptor.Facts.route_expire_writes = "delete:s.seenUpdates;under:seenUpdatesLock" := by decide

/-- **replay_is_noop.** An update whose ID was already seen changes nothing and produces no
message, whatever else it contains. -/
theorem replay_is_noop (s : NodeState) (u : Update) (recv : Node) (fresh : UpdateID)
    (h0 : u.nodeID ≠ []) (h1 : u.nodeID ≠ s.id) (hs : u.updateID ∈ s.seen) :
    step stdStale s u recv fresh = (s, []) := by
  simp [step, h0, h1, remoteStep, stdStale, hs]

/-- **stale_is_noop.** A genuine update that is older than or equal to the one already
accepted from the same origin (by epoch, then sequence) leaves the picture of the network
(`known`) and the recorded stamp (`info`) untouched and is not relayed. -/
theorem stale_is_noop (s : NodeState) (u : Update) (recv : Node) (fresh : UpdateID) (ni : Nat × Nat)
    (h0 : u.nodeID ≠ []) (h1 : u.nodeID ≠ s.id) (hn : u.suspectedDuplicate = 0)
    (hi : s.info.get? u.nodeID = some ni) (hle : lexLe (u.epoch, u.seq) ni = true) :
    (step stdStale s u recv fresh).2 = [] ∧ (step stdStale s u recv fresh).1.known = s.known
      ∧ (step stdStale s u recv fresh).1.info = s.info ∧ (step stdStale s u recv fresh).1.conns = s.conns := by
  simp only [step, h0, h1, if_false, remoteStep]
  split
  · simp
  · simp only [hn, ne_eq, not_true_eq_false, if_false, markSeen_info, hi]
    have hst : stale stdStale ni u = true := by
      simp only [lexLe] at hle
      simp only [stale, stdStale, Bool.true_and, if_true]
      simpa using hle
    simp [hst]

/-- **no_self_accept.** An update naming this node as origin from its own current run
changes nothing and produces no message. -/
theorem no_self_accept (R : StaleRule) (s : NodeState) (u : Update) (recv : Node) (fresh : UpdateID)
    (h0 : u.nodeID = s.id) (he : u.epoch = s.epoch) : step R s u recv fresh = (s, []) := by
  unfold step
  split
  · rfl
  · simp [selfStep, he]

/-- an update naming this node as origin never touches the picture of the network, whatever
its epoch: it is never "accepted" -/
theorem self_origin_never_accepted (R : StaleRule) (s : NodeState) (u : Update) (recv : Node) (fresh : UpdateID)
    (h0 : u.nodeID = s.id) :
    (step R s u recv fresh).1.known = s.known ∧ (step R s u recv fresh).1.info = s.info := by
  unfold step
  split
  · exact ⟨rfl, rfl⟩
  · unfold selfStep originate
    repeat' split
    all_goals exact ⟨rfl, rfl⟩

theorem mem_floodTo {s : NodeState} {ex : Option Node} {u : Update} {a : Action} (h : a ∈ floodTo s ex u) :
    ∃ c, a = .send c u ∧ s.conns.contains c = true ∧ some c ≠ ex := by
  simp only [floodTo, List.mem_map, List.mem_filter] at h
  obtain ⟨e, ⟨hm, hne⟩, rfl⟩ := h
  refine ⟨e.1, rfl, ?_, by simpa using hne⟩
  simp only [KMap.contains, List.any_eq_true]
  exact ⟨e, hm, by simp⟩

/-- **relay_excludes_receiver.** Every message a node sends in reaction to another node's
update goes to one of its connections, never to the connection the update came from, and
carries the update unchanged except for the forwarder field. -/
theorem relay_excludes_receiver (s : NodeState) (u : Update) (recv : Node) (fresh : UpdateID)
    (h0 : u.nodeID ≠ s.id) (a : Action) (ha : a ∈ (step stdStale s u recv fresh).2) :
    isReq a = true ∨
      ∃ c, a = .send c { u with forwardingNode := s.id } ∧ c ≠ recv ∧ s.conns.contains c = true := by
  unfold step at ha
  split at ha
  · simp at ha
  · rcases remoteStep_shape stdStale s u recv with ⟨he, _⟩ | ⟨_, _, pre, hpre, hacts⟩
    · rw [he] at ha; simp at ha
    · rw [hacts, List.mem_append] at ha
      cases ha with
      | inl h => exact Or.inl (hpre a h)
      | inr h =>
        right
        simp only [relayActs, stdStale, if_true] at h
        obtain ⟨c, hc, hcon, hne⟩ := mem_floodTo h
        exact ⟨c, by simpa using hc, by simpa using hne, by simpa using hcon⟩

/-! ### info never regresses (genuine updates) -/

/-- the recorded stamp of `origin` does not decrease across `step`, for updates that are not
suspected-duplicate notices -/
theorem info_monotone (s : NodeState) (u : Update) (recv : Node) (fresh : UpdateID) (origin : Node)
    (hn : u.suspectedDuplicate = 0) (old : Nat × Nat) (ho : s.info.get? origin = some old) :
    ∃ new, (step stdStale s u recv fresh).1.info.get? origin = some new ∧ lexLe old new = true := by
  have hrefl : lexLe old old = true := by simp [lexLe]
  unfold step
  split
  · exact ⟨old, ho, hrefl⟩
  · split
    · rename_i hne hself
      have := (self_origin_never_accepted stdStale s u recv fresh hself).2
      unfold step at this
      rw [if_neg hne, if_pos hself] at this
      rw [this]; exact ⟨old, ho, hrefl⟩
    · unfold remoteStep
      split
      · exact ⟨old, ho, hrefl⟩
      · simp only [hn, ne_eq, not_true_eq_false, if_false, markSeen_info]
        by_cases hk : origin = u.nodeID
        · subst hk
          simp only [ho]
          by_cases hst : stale stdStale old u = true
          · simp only [hst, if_true, markSeen_info]; exact ⟨old, ho, hrefl⟩
          · simp only [hst]
            refine ⟨(u.epoch, u.seq), by simp [acceptStep, KMap.get?_set_self], ?_⟩
            simp only [stale, stdStale, Bool.true_and, if_true] at hst
            simp only [lexLe]
            simp at hst ⊢
            omega
        · have keep : ∀ t : NodeState, t.info = s.info → (acceptStep t u).info.get? origin = some old := by
            intro t ht
            simp only [acceptStep, ht]
            rw [KMap.get?_set_other _ _ _ _ hk]; exact ho
          split
          · split
            · exact ⟨old, by simpa using ho, hrefl⟩
            · exact ⟨old, keep _ rfl, hrefl⟩
          · exact ⟨old, keep _ rfl, hrefl⟩

/-! ### at most one relay per update ID -/

theorem seen_grows (s : NodeState) (u : Update) (recv : Node) (fresh : UpdateID) (i : UpdateID)
    (h : i ∈ s.seen) : i ∈ (step stdStale s u recv fresh).1.seen := by
  unfold step
  split
  · exact h
  · split
    · rw [selfStep_seen]; exact h
    · rcases remoteStep_shape stdStale s u recv with ⟨_, he | he⟩ | ⟨_, he, _⟩
      all_goals (rw [he]; simp [h])

theorem relaysOf_floodTo_self (s : NodeState) (ex : Option Node) (u : Update) (i : UpdateID)
    (h : u.nodeID = s.id) : relaysOf s.id i (floodTo s ex u) = [] := by
  simp only [relaysOf, List.filter_eq_nil_iff]
  intro a ha
  obtain ⟨c, rfl, _, _⟩ := mem_floodTo ha
  simp [h]

theorem relaysOf_selfStep (s : NodeState) (u : Update) (fresh : UpdateID) (i : UpdateID) :
    relaysOf s.id i (selfStep s u fresh).2 = [] := by
  unfold selfStep originate
  repeat' split
  all_goals (first | rfl | skip)
  exact relaysOf_floodTo_self _ _ _ _ rfl

theorem relaysOf_relayActs_ne (s t : NodeState) (u : Update) (recv : Node) (i : UpdateID) (hne : u.updateID ≠ i) :
    relaysOf s.id i (relayActs stdStale t u recv) = [] := by
  simp only [relaysOf, List.filter_eq_nil_iff]
  intro a ha
  simp only [relayActs] at ha
  obtain ⟨c, rfl, _, _⟩ := mem_floodTo ha
  simp [hne]

/-- once an ID is in the seen table, no later step relays it -/
theorem no_relay_when_seen (s : NodeState) (u : Update) (recv : Node) (fresh : UpdateID) (i : UpdateID)
    (h : i ∈ s.seen) : relaysOf s.id i (step stdStale s u recv fresh).2 = [] := by
  unfold step
  split
  · rfl
  · split
    · exact relaysOf_selfStep s u fresh i
    · rcases remoteStep_shape stdStale s u recv with ⟨he, _⟩ | ⟨hd, _, pre, hpre, hacts⟩
      · rw [he]; rfl
      · have hne : u.updateID ≠ i := by
          intro he; subst he
          apply hd; simp [stdStale, h]
        rw [hacts, relaysOf_append, relaysOf_reqs _ _ _ hpre, relaysOf_relayActs_ne _ _ _ _ _ hne]
        rfl

/-- a step that relays ID `i` puts `i` into the seen table -/
theorem relay_marks_seen (s : NodeState) (u : Update) (recv : Node) (fresh : UpdateID) (i : UpdateID)
    (h : relaysOf s.id i (step stdStale s u recv fresh).2 ≠ []) :
    i ∈ (step stdStale s u recv fresh).1.seen := by
  unfold step at h ⊢
  split at h
  · simp [relaysOf] at h
  · rename_i h0
    rw [if_neg h0]
    split at h
    · exact absurd (relaysOf_selfStep s u fresh i) h
    · rename_i h1
      rw [if_neg h1]
      rcases remoteStep_shape stdStale s u recv with ⟨he, _⟩ | ⟨_, hseen, pre, hpre, hacts⟩
      · rw [he] at h; simp [relaysOf] at h
      · rw [hseen]
        by_cases hid : u.updateID = i
        · subst hid; simp
        · exfalso; apply h
          rw [hacts, relaysOf_append, relaysOf_reqs _ _ _ hpre, relaysOf_relayActs_ne _ _ _ _ _ hid]
          rfl

/-- number of steps of a run that relay update ID `i` -/
def relaySteps (me : Node) (i : UpdateID) (acts : List (List Action)) : Nat :=
  (acts.filter fun a => !(relaysOf me i a).isEmpty).length

theorem run_no_relay_when_seen : ∀ (inputs : List (Update × Node × UpdateID)) (s : NodeState) (i : UpdateID),
    i ∈ s.seen → relaySteps s.id i (run stdStale s inputs).2 = 0 := by
  intro inputs
  induction inputs with
  | nil => intro s i _; rfl
  | cons x rest ih =>
    intro s i h
    obtain ⟨u, recv, fresh⟩ := x
    simp only [run, relaySteps, List.filter_cons]
    have h1 := no_relay_when_seen s u recv fresh i h
    have h2 := ih (step stdStale s u recv fresh).1 i (seen_grows s u recv fresh i h)
    rw [step_id] at h2
    simp only [h1, List.isEmpty_nil, Bool.not_true]
    simpa [relaySteps] using h2

/-- **relay_at_most_once.** In any history of received updates — any order, duplication,
replays — a node relays any given update ID in at most one step (as long as the ID has not
been expired from its seen table). -/
theorem relay_at_most_once : ∀ (inputs : List (Update × Node × UpdateID)) (s : NodeState) (i : UpdateID),
    relaySteps s.id i (run stdStale s inputs).2 ≤ 1 := by
  intro inputs
  induction inputs with
  | nil => intro s i; simp [run, relaySteps]
  | cons x rest ih =>
    intro s i
    obtain ⟨u, recv, fresh⟩ := x
    simp only [run, relaySteps, List.filter_cons]
    by_cases hr : relaysOf s.id i (step stdStale s u recv fresh).2 = []
    · simp only [hr, List.isEmpty_nil, Bool.not_true]
      have := ih (step stdStale s u recv fresh).1 i
      rw [step_id] at this
      simpa [relaySteps] using this
    · have hseen := relay_marks_seen s u recv fresh i hr
      have h0 := run_no_relay_when_seen rest (step stdStale s u recv fresh).1 i hseen
      rw [step_id] at h0
      have : (relaysOf s.id i (step stdStale s u recv fresh).2).isEmpty = false := by
        cases hl : relaysOf s.id i (step stdStale s u recv fresh).2 with
        | nil => exact absurd hl hr
        | cons _ _ => rfl
      simp only [this, Bool.not_false, if_true, List.length_cons]
      simp only [relaySteps] at h0
      omega

theorem floodTo_length_le (t : NodeState) (ex : Option Node) (w : Update) :
    (floodTo t ex w).length ≤ t.conns.length := by
  simp only [floodTo, List.length_map]
  exact List.length_filter_le _ _

theorem relaysOf_length_le (me : Node) (i : UpdateID) (l : List Action) : (relaysOf me i l).length ≤ l.length :=
  List.length_filter_le _ _

/-- **flood_terminates (per node).** One step relays an update to at most as many
connections as the node has; together with `relay_at_most_once` the total number of relays
of one update in the network is bounded by the sum of the node degrees, for every delivery
order, duplication and loss. -/
theorem flood_terminates_bound (s : NodeState) (u : Update) (recv : Node) (fresh : UpdateID) (i : UpdateID) :
    (relaysOf s.id i (step stdStale s u recv fresh).2).length ≤ s.conns.length := by
  unfold step
  split
  · simp [relaysOf]
  · split
    · rw [relaysOf_selfStep]; simp
    · rcases remoteStep_shape stdStale s u recv with ⟨he, _⟩ | ⟨_, _, pre, hpre, hacts⟩
      · rw [he]; simp [relaysOf]
      · rw [hacts, relaysOf_append, relaysOf_reqs _ _ _ hpre]
        simp only [List.nil_append]
        calc _ ≤ (relayActs stdStale (markSeen s u.updateID) u recv).length := relaysOf_length_le _ _ _
          _ ≤ (markSeen s u.updateID).conns.length := floodTo_length_le _ _ _
          _ = s.conns.length := rfl

/-- Non-vacuity: a fresh update is accepted and relayed to the other neighbour only; its
replay and an older one are dropped. -/
def exState : NodeState :=
  { id := [1], epoch := 100, seq := 0, conns := [([2], 1), ([3], 1)], info := [], known := [], seen := [] }
def exUpd (q : Nat) (uid : Nat) : Update :=
  { nodeID := [2], updateID := [uid], epoch := 7, seq := q, conns := some [([1], 1)], forwardingNode := [2],
    suspectedDuplicate := 0 }

example : (step stdStale exState (exUpd 5 50) [2] []).2
    = [.reqFlood, .reqTable, .send [3] { exUpd 5 50 with forwardingNode := [1] }] := by decide
example : relaySteps [1] [50] (run stdStale exState [(exUpd 5 50, [2], []), (exUpd 5 50, [3], []), (exUpd 4 51, [3], [])]).2 = 1 := by
  decide

/-! ### expiry of the seen table: ordinary updates are still relayed at most once -/

/-- the seen table forgets any of its entries at any moment (`expireSeenUpdates`: which ones depends on the clock) -/
def forget (s : NodeState) (keep : UpdateID → Bool) : NodeState := { s with seen := s.seen.filter keep }

inductive Ev where
  | upd (u : Update) (recv : Node) (fresh : UpdateID)
  | expire (keep : UpdateID → Bool)

def stepE (s : NodeState) : Ev → NodeState × List Action
  | .upd u recv fresh => step stdStale s u recv fresh
  | .expire keep => (forget s keep, [])

def runE : NodeState → List Ev → NodeState × List (List Action)
  | s, [] => (s, [])
  | s, ev :: rest => ((runE (stepE s ev).1 rest).1, (stepE s ev).2 :: (runE (stepE s ev).1 rest).2)

def ordinary : Ev → Bool
  | .upd u _ _ => u.suspectedDuplicate == 0
  | .expire _ => true

/-- the relays, among a step's actions, of the update that origin `o` stamped `(e, q)` -/
def relaysStamp (me o : Node) (e q : Nat) (acts : List Action) : List Action :=
  acts.filter fun a =>
    match a with
    | .send _ w => w.nodeID == o && w.epoch == e && w.seq == q && w.nodeID != me
    | _ => false

def stampSteps (me o : Node) (e q : Nat) (acts : List (List Action)) : Nat :=
  (acts.filter fun a => !(relaysStamp me o e q a).isEmpty).length

theorem relaysStamp_selfStep (s : NodeState) (u : Update) (fresh : UpdateID) (o : Node) (e q : Nat) :
    relaysStamp s.id o e q (selfStep s u fresh).2 = [] := by
  unfold selfStep originate
  repeat' split
  all_goals (first | rfl | skip)
  simp only [relaysStamp, List.filter_eq_nil_iff]
  intro a ha
  obtain ⟨c, rfl, _, _⟩ := mem_floodTo ha
  simp

/-- a step that relays stamp `(e, q)` of origin `o` is the step of an update with that origin and stamp, it records the
stamp, and the stamp recorded before (if any) was older -/
theorem relay_records_stamp (s : NodeState) (u : Update) (recv : Node) (fresh : UpdateID) (o : Node) (e q : Nat)
    (hn : u.suspectedDuplicate = 0) (h : relaysStamp s.id o e q (step stdStale s u recv fresh).2 ≠ []) :
    (step stdStale s u recv fresh).1.info.get? o = some (e, q) ∧
      ∀ ni, s.info.get? o = some ni → lexLe (e, q) ni = false := by
  unfold step at h ⊢
  split at h
  · exact absurd rfl h
  · rename_i h0
    rw [if_neg h0]
    split at h
    · exact absurd (relaysStamp_selfStep s u fresh o e q) h
    · rename_i h1
      rw [if_neg h1]
      -- some action passes the filter
      obtain ⟨a, ha, hp⟩ : ∃ a, a ∈ (remoteStep stdStale s u recv).2 ∧
          (match a with
            | .send _ w => w.nodeID == o && w.epoch == e && w.seq == q && w.nodeID != s.id
            | _ => false) = true := by
        cases hl : relaysStamp s.id o e q (remoteStep stdStale s u recv).2 with
        | nil => exact absurd hl h
        | cons a l =>
          have : a ∈ relaysStamp s.id o e q (remoteStep stdStale s u recv).2 := by rw [hl]; simp
          simp only [relaysStamp, List.mem_filter] at this
          exact ⟨a, this.1, this.2⟩
      have hstep : (step stdStale s u recv fresh).2 = (remoteStep stdStale s u recv).2 := by
        unfold step; rw [if_neg h0, if_neg h1]
      have hx := relay_excludes_receiver s u recv fresh h1 a (by rw [hstep]; exact ha)
      rcases hx with hreq | ⟨c, rfl, _, _⟩
      · cases a <;> simp [isReq] at hreq hp
      · simp only [Bool.and_eq_true, beq_iff_eq, bne_iff_ne] at hp
        obtain ⟨⟨⟨ho, he⟩, hq⟩, _⟩ := hp
        subst ho he hq
        -- which branch produced actions
        unfold remoteStep at ha ⊢
        split at ha
        · simp at ha
        · rename_i hd
          rw [if_neg hd]
          simp only [hn, ne_eq, not_true_eq_false, if_false, markSeen_info] at ha ⊢
          split at ha
          · rename_i ni hni
            split at ha
            · simp at ha
            · rename_i hst
              simp only [hni, hst]
              refine ⟨by simp [acceptStep, KMap.get?_set_self], ?_⟩
              intro ni' hni'
              cases hni'
              simp only [stale, stdStale, Bool.true_and, if_true] at hst
              simp only [lexLe]
              simp at hst ⊢
              omega
          · rename_i hni
            simp only [hni]
            refine ⟨by simp [acceptStep, KMap.get?_set_self], ?_⟩
            intro ni' hni'; cases hni'

theorem lexLe_trans {a b c : Nat × Nat} (h1 : lexLe a b = true) (h2 : lexLe b c = true) : lexLe a c = true := by
  simp only [lexLe, Bool.or_eq_true, decide_eq_true_eq, Bool.and_eq_true, beq_iff_eq] at *
  omega

/-- origin `o`'s recorded stamp is at least `(e, q)` -/
def Blocked (o : Node) (e q : Nat) (s : NodeState) : Prop := ∃ ni, s.info.get? o = some ni ∧ lexLe (e, q) ni = true

theorem stepE_id (s : NodeState) (ev : Ev) : (stepE s ev).1.id = s.id := by
  cases ev with
  | upd u recv fresh => exact step_id _ _ _ _ _
  | expire keep => rfl

theorem blocked_stepE (o : Node) (e q : Nat) (s : NodeState) (ev : Ev) (ho : ordinary ev = true) (hb : Blocked o e q s) :
    relaysStamp s.id o e q (stepE s ev).2 = [] ∧ Blocked o e q (stepE s ev).1 := by
  obtain ⟨ni, hni, hle⟩ := hb
  cases ev with
  | expire keep => exact ⟨rfl, ni, hni, hle⟩
  | upd u recv fresh =>
    have hn : u.suspectedDuplicate = 0 := by simpa [ordinary] using ho
    refine ⟨?_, ?_⟩
    · apply Classical.byContradiction
      intro hne
      have := (relay_records_stamp s u recv fresh o e q hn hne).2 ni hni
      rw [hle] at this; cases this
    · obtain ⟨new, hnew, hle2⟩ := info_monotone s u recv fresh o hn ni hni
      exact ⟨new, hnew, lexLe_trans hle hle2⟩

theorem runE_blocked (o : Node) (e q : Nat) : ∀ (evs : List Ev) (s : NodeState), (∀ ev ∈ evs, ordinary ev = true) →
    Blocked o e q s → stampSteps s.id o e q (runE s evs).2 = 0 := by
  intro evs
  induction evs with
  | nil => intro s _ _; rfl
  | cons ev rest ih =>
    intro s hall hb
    have ⟨h1, h2⟩ := blocked_stepE o e q s ev (hall ev (by simp)) hb
    have h3 := ih (stepE s ev).1 (fun x hx => hall x (by simp [hx])) h2
    rw [stepE_id] at h3
    simp only [runE, stampSteps, List.filter_cons, h1, List.isEmpty_nil, Bool.not_true]
    simpa [stampSteps] using h3

/-- **relay_at_most_once_despite_expiry_partial.** In any history of ordinary updates (no suspected-duplicate notices:
those bypass the stamp test by design) in which the seen table forgets any of its entries at any moments, a node relays
the update that origin `o` stamped `(e, q)` in at most one step — under whatever update IDs copies of it arrive: what
stops the second relay is the recorded stamp, which never regresses, not the seen table. -/
theorem relay_at_most_once_despite_expiry_partial (o : Node) (e q : Nat) : ∀ (evs : List Ev) (s : NodeState),
    (∀ ev ∈ evs, ordinary ev = true) → stampSteps s.id o e q (runE s evs).2 ≤ 1 := by
  intro evs
  induction evs with
  | nil => intro s _; simp [runE, stampSteps]
  | cons ev rest ih =>
    intro s hall
    have hrest : ∀ x ∈ rest, ordinary x = true := fun x hx => hall x (by simp [hx])
    simp only [runE, stampSteps, List.filter_cons]
    by_cases hr : relaysStamp s.id o e q (stepE s ev).2 = []
    · simp only [hr, List.isEmpty_nil, Bool.not_true]
      have := ih (stepE s ev).1 hrest
      rw [stepE_id] at this
      simpa [stampSteps] using this
    · have hb : Blocked o e q (stepE s ev).1 := by
        cases ev with
        | expire keep => exact absurd rfl hr
        | upd u recv fresh =>
          have hn : u.suspectedDuplicate = 0 := by simpa [ordinary] using hall (.upd u recv fresh) (by simp)
          exact ⟨(e, q), (relay_records_stamp s u recv fresh o e q hn hr).1, by simp [lexLe]⟩
      have h0 := runE_blocked o e q rest (stepE s ev).1 hrest hb
      rw [stepE_id] at h0
      have : (relaysStamp s.id o e q (stepE s ev).2).isEmpty = false := by
        cases hl : relaysStamp s.id o e q (stepE s ev).2 with
        | nil => exact absurd hl hr
        | cons _ _ => rfl
      simp only [this, Bool.not_false, if_true, List.length_cons]
      simp only [stampSteps] at h0
      omega

/-- the recorded stamps never regress in such a history either (expiry touches only the seen table) -/
theorem info_monotone_despite_expiry (o : Node) : ∀ (evs : List Ev) (s : NodeState) (old : Nat × Nat),
    (∀ ev ∈ evs, ordinary ev = true) → s.info.get? o = some old →
    ∃ new, (runE s evs).1.info.get? o = some new ∧ lexLe old new = true := by
  intro evs
  induction evs with
  | nil => intro s old _ h; exact ⟨old, h, by simp [lexLe]⟩
  | cons ev rest ih =>
    intro s old hall h
    have hrest : ∀ x ∈ rest, ordinary x = true := fun x hx => hall x (by simp [hx])
    obtain ⟨mid, hmid, hle⟩ : ∃ mid, (stepE s ev).1.info.get? o = some mid ∧ lexLe old mid = true := by
      cases ev with
      | expire keep => exact ⟨old, h, by simp [lexLe]⟩
      | upd u recv fresh =>
        have hn : u.suspectedDuplicate = 0 := by simpa [ordinary] using hall (.upd u recv fresh) (by simp)
        exact info_monotone s u recv fresh o hn old h
    obtain ⟨new, hnew, hle2⟩ := ih (stepE s ev).1 mid hrest hmid
    exact ⟨new, by simpa [runE] using hnew, lexLe_trans hle hle2⟩

/-- Non-vacuity: the update is relayed, its ID is expired from the seen table, the same update arrives again (same ID, and
under another ID) — not relayed again; without the stamp test it would be (the seen table no longer knows it). -/
example : stampSteps [1] [2] 7 5 (runE exState [.upd (exUpd 5 50) [2] [], .expire (fun _ => false), .upd (exUpd 5 50) [3] [],
    .upd (exUpd 5 51) [3] []]).2 = 1
    ∧ (runE exState [.upd (exUpd 5 50) [2] [], .expire (fun _ => false)]).1.seen = [] := by decide

end Receptor.Flood
