import Receptor.Drive.Util
import Receptor.Model.Results
import Receptor.Generated.Facts
namespace Receptor.Drive.Results
open Lean Receptor.Drive Receptor.Results

/-- which states the source's `GetResults` takes for terminal (regenerated facts) -/
def terminalOfFacts : Nat → Bool :=
  if Receptor.Facts.res_iscomplete = "return workState == WorkStateSucceeded || workState == WorkStateFailed" then
    if Receptor.Facts.res_end_cond = "IsComplete(unitStatus.State) && filePos >= unitStatus.StdoutSize" then isComplete
    else if Receptor.Facts.res_end_cond = "(IsComplete(unitStatus.State) || unitStatus.State == WorkStateCanceled) && filePos >= unitStatus.StdoutSize" then isCompleteOrCancelled
    else isComplete
  else isComplete

def patByte (i : Nat) : Nat := (i * 7 + i / 251) % 256

structure PEv where
  k : String
  n : Nat
  st : Nat
  deriving Inhabited

def getInt (j : Json) (k : String) : Except String Int := do (← j.getObjVal? k).getInt?

/-- the reader runs until it has to wait: reads until end-of-file, then the check -/
partial def readerTurn (T : Nat → Bool) (s : St) : St :=
  if s.ended then s
  else if s.atEof then step T s .check
  else readerTurn T (step T s (.read 65536))

/-- the model's account of one consumer that asks at script position `at` -/
def runAsk (T : Nat → Bool) (script : Array PEv) (at_ : Nat) (pos : Nat) : St := Id.run do
  -- producer events before the question build the file
  let mut s : St := init pos
  let mut written := 0
  for i in [0:script.size] do
    let e := script[i]!
    match e.k with
    | "append" =>
      s := step T s (.append ((List.range e.n).map fun j => patByte (written + j)))
      written := written + e.n
    | "record" => s := step T s (.record written)
    | "finish" => s := step T s (.finish e.st)
    | _ => pure ()
    if i ≥ at_ then
      s := readerTurn T s
  -- a reader that keeps running: twice more (check clears the flag, reads, check)
  s := readerTurn T (readerTurn T (readerTurn T s))
  return s

def handle (op : String) (a r : Json) : Except String Reply := do
  match op with
  | "units" =>
    let units ← getArr a "units"
    let implUnits := (getArr r "units").toOption.getD []
    let mut mUnits : List Json := []
    let mut bad : Option (String × String) := none
    let mut idx := 0
    for u in units do
      let evs ← (← u.getArr?).toList.mapM fun e => do
        pure ({ k := ← getStr e "k", n := ← getNat e "n", st := ((getNat e "st").toOption.getD 0) } : PEv)
      let script := evs.toArray
      let total := (evs.filter (·.k == "append")).foldl (fun acc e => acc + e.n) 0
      let implAsks := ((implUnits[idx]?).bind fun x => (getArr x "asks").toOption).getD []
      let mut asks : List Json := []
      let mut k := 0
      for i in [0:script.size] do
        let e := script[i]!
        if e.k == "ask" then
          let sm := runAsk terminalOfFacts script i e.n
          let ss := runAsk finished script i e.n
          -- the model's sent bytes are the pattern bytes of their positions by construction of the file
          let contentOK := (sm.sent.zipIdx).all fun (c, j) => c == patByte (e.n + j)
          asks := asks ++ [jObj [("pos", jNat e.n), ("got", jNat sm.sent.length), ("bad_at", Json.num (JsonNumber.fromInt (if contentOK then -1 else 0))),
                                ("ended", Json.bool sm.ended), ("ended_early", Json.bool false), ("err", Json.str "")]]
          -- property predicates on the implementation's observation against the specification
          if bad.isNone then
            match implAsks[k]? with
            | none => bad := some ("C05/missing-observation", "no observation for a consumer")
            | some ia =>
              let got := (getNat ia "got").toOption.getD 0
              let badAt := (getInt ia "bad_at").toOption.getD 0
              let ended := (getBool ia "ended").toOption.getD false
              let early := (getBool ia "ended_early").toOption.getD false
              let err := (getStr ia "err").toOption.getD "?"
              if badAt ≥ 0 then
                bad := some ("C05/wrong-bytes", s!"results from offset {e.n}: received byte {badAt} is not output byte {e.n}+{badAt}")
              else if early then
                bad := some ("C05/ended-early", s!"results from offset {e.n} ended before the unit had finished")
              else if ended && got != ss.sent.length then
                bad := some ("C05/ended-incomplete", s!"results from offset {e.n} ended after {got} bytes; the output from there on has {ss.sent.length}")
              else if !ended && ss.ended then
                bad := some ("C05/never-ends", s!"results from offset {e.n} of a finished unit (final state {((evs.filter (·.k == "finish")).head?.map (·.st)).getD 0}) did not end")
              else if err != "" then
                bad := some ("C05/error", s!"results from offset {e.n}: {err}")
              else if got > ss.sent.length then
                bad := some ("C05/too-many-bytes", s!"results from offset {e.n}: {got} bytes received, the output from there on has {ss.sent.length}")
          k := k + 1
      mUnits := mUnits ++ [jObj [("asks", jArr asks), ("total", jNat total), ("errs", jArr [])]]
      idx := idx + 1
    let m := jObj [("units", jArr mUnits), ("nontrivial", Json.bool true)]
    match bad with
    | some (sig, why) => pure { m := m, prop := some false, why := why, sig := sig }
    | none => pure { m := m, prop := some true }
  | _ => throw s!"bad-op results {op}"

end Receptor.Drive.Results
