package controlsvc

// C08 "accept" engine: the control service on a TLS TCP listener (what RunControlSvc builds for tcplisten + tcptls).
// Clients that connect and then stay silent — they never start the TLS handshake — must not keep anybody else from
// being greeted: sessions are isolated from the first byte on.

import (
	"bufio"
	"context"
	"crypto/ecdsa"
	"crypto/elliptic"
	"crypto/rand"
	"crypto/tls"
	"crypto/x509"
	"crypto/x509/pkix"
	"encoding/json"
	"io"
	"math/big"
	"net"
	"strings"
	"testing"
	"time"

	"github.com/ansible/receptor/pkg/netceptor"
)

type acceptArgs struct {
	Silent int `json:"silent"` // connections that never speak, opened before the probe
	Probes int `json:"probes"`
}

func acceptServerCert() tls.Certificate {
	key, err := ecdsa.GenerateKey(elliptic.P256(), rand.Reader)
	if err != nil {
		panic(err)
	}
	tmpl := &x509.Certificate{SerialNumber: big.NewInt(1), Subject: pkix.Name{CommonName: "verif control"}, DNSNames: []string{"localhost"},
		NotBefore: time.Now().Add(-time.Hour), NotAfter: time.Now().Add(24 * time.Hour), KeyUsage: x509.KeyUsageDigitalSignature,
		ExtKeyUsage: []x509.ExtKeyUsage{x509.ExtKeyUsageServerAuth}}
	der, err := x509.CreateCertificate(rand.Reader, tmpl, tmpl, &key.PublicKey, key)
	if err != nil {
		panic(err)
	}
	return tls.Certificate{Certificate: [][]byte{der}, PrivateKey: key}
}

func acceptApply(op string, raw json.RawMessage) interface{} {
	var a acceptArgs
	if err := json.Unmarshal(raw, &a); err != nil {
		panic(err)
	}
	if op != "silent" {
		panic("verif: unknown op " + op)
	}
	ctx, cancel := context.WithCancel(context.Background())
	defer cancel()
	nc := netceptor.New(ctx, "verif-ctl")
	nc.Logger.SetOutput(io.Discard)
	s := New(true, nc)
	tcp, err := net.Listen("tcp", "127.0.0.1:0")
	if err != nil {
		return map[string]interface{}{"error": err.Error()}
	}
	defer tcp.Close()
	li := tls.NewListener(tcp, &tls.Config{Certificates: []tls.Certificate{acceptServerCert()}, MinVersion: tls.VersionTLS12})
	go s.ConnectionListener(ctx, li)
	var silent []net.Conn
	for i := 0; i < a.Silent; i++ {
		c, err := net.Dial("tcp", tcp.Addr().String())
		if err != nil {
			return map[string]interface{}{"error": err.Error()}
		}
		silent = append(silent, c)
	}
	defer func() {
		for _, c := range silent {
			_ = c.Close()
		}
	}()
	time.Sleep(100 * time.Millisecond) // the silent connections have been accepted
	greeted, fast := 0, 0
	for i := 0; i < a.Probes; i++ {
		t0 := time.Now()
		d := &net.Dialer{Timeout: 4 * time.Second}
		c, err := tls.DialWithDialer(d, "tcp", tcp.Addr().String(), &tls.Config{InsecureSkipVerify: true}) //nolint:gosec
		if err != nil {
			continue
		}
		_ = c.SetDeadline(time.Now().Add(4 * time.Second))
		line, err := bufio.NewReader(c).ReadString('\n')
		if err == nil && strings.HasPrefix(line, "Receptor Control, node verif-ctl") {
			greeted++
			if time.Since(t0) < 3*time.Second {
				fast++
			}
		}
		_ = c.Close()
	}
	return map[string]interface{}{"greeted": greeted, "fast": fast}
}

func acceptGen(v *verifRun) {
	for i := 0; i < v.n; i++ {
		v.do(acceptApply, "silent", acceptArgs{Silent: []int{1, 3, 0}[i%3], Probes: 2})
	}
}

func TestVerifAccept(t *testing.T) {
	v := verifOpen(t, "accept")
	v.run(acceptApply, acceptGen)
}
