package netceptor

// C18 harness: handleServiceAdvertisement on histories of advertisements and withdrawals with
// generator-chosen logical times, in arbitrary (also out-of-order and duplicated) delivery orders.

import (
	"context"
	"encoding/json"
	"sort"
	"strings"
	"sync"
	"testing"
	"time"

	"github.com/ansible/receptor/pkg/logger"
)

type adsMsgArg struct {
	Node   string            `json:"node"`
	Svc    string            `json:"svc"`
	Time   int64             `json:"time"`
	Type   int               `json:"type"`
	Tags   map[string]string `json:"tags"`
	Cancel bool              `json:"cancel"`
	Recv   string            `json:"recv"`
}

type adsArgs struct {
	Conns []string    `json:"conns"`
	Msgs  []adsMsgArg `json:"msgs"`
}

func adsTime(t int64) time.Time { return time.Unix(100000+t, 0) }

type adsOwnerArgs struct {
	Svc   string `json:"svc"`
	Other bool   `json:"other"` // a second advertised service stays open
	// "" (close-during-send): the listener is closed between the collection and the send of a round;
	// "round-before-close-lock": a whole advertisement round runs at the moment Close asks for the listener lock
	Variant string `json:"variant"`
}

// adsLockHook wraps the node a socket belongs to: the first request for the listener lock runs `before` first
type adsLockHook struct {
	*Netceptor
	once   sync.Once
	before func()
}

func (h *adsLockHook) GetListenerLock() *sync.RWMutex {
	h.once.Do(h.before)
	return h.Netceptor.GetListenerLock()
}

// owner: a periodic advertisement round of the owning node during which the listener is closed — between the
// collection of the advertised listeners and the sending of its advertisement (the logging call in front of the
// send is the scheduling point).  The two messages the owner emits are then delivered to a fresh node in both orders.
func adsOwner(raw json.RawMessage) interface{} {
	var a adsOwnerArgs
	if err := json.Unmarshal(raw, &a); err != nil {
		panic(err)
	}
	if a.Variant == "close-at-sibling" {
		// the close has to land while a sibling service's advertisement is being sent and this service's own is still to
		// come; the order of a round follows map iteration: try until it falls that way
		var last interface{}
		for i := 0; i < 16; i++ {
			inner := a
			inner.Variant = "close-at-sibling-once"
			inner.Other = true
			b, _ := json.Marshal(inner)
			last = adsOwner(b)
			if m, ok := last.(map[string]interface{}); ok && m["fired"] == true {
				return last
			}
		}
		return last
	}
	svc := string(verifUnhex(a.Svc))
	s, cancel := verifQuietNode("verif-owner", 30)
	defer cancel()
	ch := make(chan []byte, 4096)
	ctx, cf := context.WithCancel(s.context)
	s.connections["p1"] = &connInfo{ReadChan: make(chan []byte), WriteChan: ch, Context: ctx, CancelFunc: cf, Cost: 1,
		lastReceivedData: time.Now(), lastReceivedLock: &sync.RWMutex{}, logger: s.Logger}
	if a.Variant == "close-at-sibling-once" {
		// siblings first: a round follows map iteration, which starts at a random slot — with the own service in the last
		// used slot a sibling comes first in seven rounds out of eight
		a.Other = false
		for _, sib := range []string{"stay1", "stay2", "stay3", "stay4"} {
			if _, err := s.ListenPacketAndAdvertise(sib, map[string]string{"type": "y"}); err != nil {
				return map[string]interface{}{"error": err.Error()}
			}
		}
	}
	pc, err := s.ListenPacketAndAdvertise(svc, map[string]string{"type": "x"})
	if err != nil {
		return map[string]interface{}{"error": err.Error()}
	}
	if a.Other {
		if _, err := s.ListenPacketAndAdvertise("stays", map[string]string{"type": "y"}); err != nil {
			return map[string]interface{}{"error": err.Error()}
		}
	}
	verifWaitFlood()
	for len(ch) > 0 {
		<-ch
	}
	if a.Variant == "round-before-close-lock" {
		fired := false
		if rpc, ok := pc.(*PacketConn); ok {
			rpc.s = &adsLockHook{Netceptor: s, before: func() { fired = true; s.sendServiceAds(); verifWaitFlood() }}
		}
		if !verifTimed(10*time.Second, func() { _ = pc.Close() }) {
			return map[string]interface{}{"wedged": true}
		}
		verifWaitFlood()
		return adsOwnerObserve(ch, svc, fired)
	}
	fired := false
	sawOwn := false
	logger.RegisterLogger(func(level int, format string, v ...interface{}) {
		if fired || !strings.HasPrefix(format, "Sending service advertisement") || len(v) == 0 {
			return
		}
		if a.Variant == "close-at-sibling-once" {
			if si, ok := v[0].(*ServiceAdvertisement); ok {
				if si.Service == svc {
					sawOwn = true
				} else if !sawOwn {
					fired = true
					_ = pc.Close()
				}
			}
			return
		}
		if si, ok := v[0].(*ServiceAdvertisement); ok && si.Service == svc {
			fired = true
			_ = pc.Close()
		}
	})
	ok := verifTimed(10*time.Second, func() { s.sendServiceAds() })
	logger.RegisterLogger(nil)
	if !ok {
		return map[string]interface{}{"wedged": true}
	}
	verifWaitFlood()
	return adsOwnerObserve(ch, svc, fired)
}

// adsOwnerObserve: the messages about svc that the owner emitted, and what a fresh node lists after receiving them in both orders
func adsOwnerObserve(ch chan []byte, svc string, fired bool) interface{} {
	var msgs [][]byte
	var adTime, wdTime time.Time
	for len(ch) > 0 {
		b := <-ch
		si := &serviceAdvertisementFull{}
		if len(b) > 0 && b[0] == MsgTypeServiceAdvertisement && json.Unmarshal(b[1:], si) == nil && si.ServiceAdvertisement != nil && si.Service == svc {
			msgs = append(msgs, b)
			if si.Cancel {
				wdTime = si.Time
			} else {
				adTime = si.Time
			}
		}
	}
	listed := []bool{}
	for order := 0; order < 2; order++ {
		obs, ocancel := verifQuietNode("verif-obs", 30)
		seq := append([][]byte{}, msgs...)
		if order == 1 {
			for i, j := 0, len(seq)-1; i < j; i, j = i+1, j-1 {
				seq[i], seq[j] = seq[j], seq[i]
			}
		}
		for _, b := range seq {
			_ = obs.handleServiceAdvertisement(b, "p1")
		}
		verifWaitFlood()
		found := false
		for _, ad := range obs.Status().Advertisements {
			if ad.NodeID == "verif-owner" && ad.Service == svc {
				found = true
			}
		}
		listed = append(listed, found)
		ocancel()
	}
	return map[string]interface{}{"fired": fired, "messages": len(msgs), "ad_not_after_withdrawal": !adTime.After(wdTime), "listed": listed}
}

func adsApply(op string, raw json.RawMessage) interface{} {
	if op == "owner" {
		return adsOwner(raw)
	}
	var a adsArgs
	if err := json.Unmarshal(raw, &a); err != nil {
		panic(err)
	}
	if op != "run" {
		panic("verif: unknown op " + op)
	}
	s, cancel := verifQuietNode("verif-ads-me", 30)
	defer cancel()
	chans := map[string]chan []byte{}
	for _, c := range a.Conns {
		p := string(verifUnhex(c))
		ch := make(chan []byte, 4096)
		ctx, cf := context.WithCancel(s.context)
		s.connections[p] = &connInfo{ReadChan: make(chan []byte), WriteChan: ch, Context: ctx, CancelFunc: cf, Cost: 1,
			lastReceivedData: time.Now(), lastReceivedLock: &sync.RWMutex{}, logger: s.Logger}
		chans[p] = ch
	}
	var out []map[string]interface{}
	for _, m := range a.Msgs {
		sa := serviceAdvertisementFull{ServiceAdvertisement: &ServiceAdvertisement{NodeID: string(verifUnhex(m.Node)), Service: string(verifUnhex(m.Svc)),
			Time: adsTime(m.Time), ConnType: byte(m.Type), Tags: m.Tags}, Cancel: m.Cancel}
		data, err := s.translateStructToNetwork(MsgTypeServiceAdvertisement, sa)
		if err != nil {
			panic(err)
		}
		var herr error
		if !verifTimed(10*time.Second, func() { herr = s.handleServiceAdvertisement(data, string(verifUnhex(m.Recv))) }) {
			out = append(out, map[string]interface{}{"wedged": true})
			break
		}
		verifWaitFlood()
		relays := []map[string]interface{}{}
		peers := make([]string, 0, len(chans))
		for p := range chans {
			peers = append(peers, p)
		}
		sort.Strings(peers)
		for _, p := range peers {
			for {
				select {
				case b := <-chans[p]:
					r := map[string]interface{}{"to": verifHex([]byte(p))}
					si := &serviceAdvertisementFull{}
					if len(b) > 0 && b[0] == MsgTypeServiceAdvertisement && json.Unmarshal(b[1:], si) == nil && si.ServiceAdvertisement != nil {
						r["node"], r["svc"] = verifHex([]byte(si.NodeID)), verifHex([]byte(si.Service))
						r["time"], r["cancel"] = si.Time.Unix()-100000, si.Cancel
					} else {
						r["raw"] = verifHex(b)
					}
					relays = append(relays, r)
					continue
				default:
				}
				break
			}
		}
		listed := []map[string]interface{}{}
		for _, ad := range s.Status().Advertisements {
			tags := map[string]string{}
			for k, v := range ad.Tags {
				tags[k] = v
			}
			listed = append(listed, map[string]interface{}{"node": verifHex([]byte(ad.NodeID)), "svc": verifHex([]byte(ad.Service)),
				"time": ad.Time.Unix() - 100000, "type": int(ad.ConnType), "tags": tags})
		}
		out = append(out, map[string]interface{}{"ret": herr == nil, "relay_set": relays, "listed_set": listed})
	}
	return map[string]interface{}{"ok": out, "nontrivial": true}
}

func adsGen(v *verifRun) {
	hx := func(s string) string { return verifHex([]byte(s)) }
	owners := []string{"o1", "o2"}
	svcs := []string{"sa", "sb"}
	peers := []string{"p1", "p2", "p3"}
	for i := 0; i < v.n; i++ {
		a := adsArgs{}
		for _, p := range peers[:1+v.rng.Intn(3)] {
			a.Conns = append(a.Conns, hx(p))
		}
		// the owners' true histories: strictly increasing times, open/close alternating or re-advertising
		var truth []adsMsgArg
		t := int64(0)
		for k := 2 + v.rng.Intn(7); k > 0; k-- {
			t += int64(1 + v.rng.Intn(3))
			m := adsMsgArg{Node: hx(owners[v.rng.Intn(2)]), Svc: hx(svcs[v.rng.Intn(2)]), Time: t, Type: v.rng.Intn(3),
				Tags: map[string]string{"type": []string{"x", "y"}[v.rng.Intn(2)]}, Cancel: v.rng.Intn(3) == 0}
			if m.Cancel {
				m.Tags = nil
			}
			truth = append(truth, m)
		}
		// delivery: each message arrives 1..3 times via random neighbours, in a shuffled order
		// (mode 0: in order, no duplicates; mode 1: duplicates; mode 2: fully shuffled)
		mode := v.rng.Intn(3)
		var deliv []adsMsgArg
		for _, m := range truth {
			n := 1
			if mode > 0 {
				n += v.rng.Intn(3)
			}
			for ; n > 0; n-- {
				c := m
				c.Recv = a.Conns[v.rng.Intn(len(a.Conns))]
				deliv = append(deliv, c)
			}
		}
		if mode == 2 {
			v.rng.Shuffle(len(deliv), func(x, y int) { deliv[x], deliv[y] = deliv[y], deliv[x] })
		} else if mode == 1 { // local disorder: swap some neighbours
			for j := 0; j+1 < len(deliv); j++ {
				if v.rng.Intn(3) == 0 {
					deliv[j], deliv[j+1] = deliv[j+1], deliv[j]
				}
			}
		}
		a.Msgs = deliv
		v.do(adsApply, "run", a)
	}
}

func adsGenAll(v *verifRun) {
	adsGen(v)
	for i := 0; i < 4; i++ {
		v.do(adsApply, "owner", adsOwnerArgs{Svc: verifHex([]byte([]string{"sa", "sb"}[i%2])), Other: i >= 2})
	}
	for i := 0; i < 2; i++ {
		v.do(adsApply, "owner", adsOwnerArgs{Svc: verifHex([]byte("sa")), Other: i == 1, Variant: "round-before-close-lock"})
		v.do(adsApply, "owner", adsOwnerArgs{Svc: verifHex([]byte("sa")), Other: true, Variant: "close-at-sibling"})
	}
}

func TestVerifAds(t *testing.T) {
	v := verifOpen(t, "ads")
	v.run(adsApply, adsGenAll)
}
