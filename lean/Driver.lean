import Receptor.Drive.Util
import Receptor.Drive.DER
import Receptor.Drive.Wire
import Receptor.Drive.Pkt
import Receptor.Drive.Fw
import Receptor.Drive.Cert
import Receptor.Drive.Flood
import Receptor.Drive.Route
import Receptor.Drive.Aging
import Receptor.Drive.Unreach
import Receptor.Drive.Ads
import Receptor.Drive.Proto
import Receptor.Drive.Work
import Receptor.Drive.Status
import Receptor.Drive.Ctl
import Receptor.Drive.Results
import Receptor.Drive.Life
import Receptor.Drive.Sock
import Receptor.Drive.Crash
import Receptor.Drive.Stream
import Receptor.Drive.Mirror
import Receptor.Drive.Link
import Receptor.Drive.Ping
import Receptor.Drive.Accept
/-! Line-protocol driver: one JSON request per line `{"e":engine,"op":op,"a":args,"r":impl-observation}`,
one JSON reply per line `{"m":model-result,"prop":true|false|null,"why":…}` or `{"bad-op":…}`. -/
open Lean Receptor.Drive

def dispatch (e op : String) (a r : Json) : Except String Reply :=
  match e with
  | "der" => Receptor.Drive.DER.handle op a r
  | "wire" => Receptor.Drive.Wire.handle op a r
  | "framer" => Receptor.Drive.Framer.handle op a r
  | "pkt" => Receptor.Drive.Pkt.handle op a r
  | "fw" => Receptor.Drive.Fw.handle op a r
  | "cert" => Receptor.Drive.Cert.handle op a r
  | "verify" => Receptor.Drive.Cert.handle op a r
  | "flood" => Receptor.Drive.Flood.handle op a r
  | "route" => Receptor.Drive.Route.handle op a r
  | "aging" => Receptor.Drive.Aging.handle op a r
  | "unreach" => Receptor.Drive.Unreach.handle op a r
  | "ads" => Receptor.Drive.Ads.handle op a r
  | "proto" => Receptor.Drive.Proto.handle op a r
  | "redact" => Receptor.Drive.Work.redactHandle op a r
  | "sig" => Receptor.Drive.Work.sigHandle op a r
  | "status" => Receptor.Drive.Status.handle op a r
  | "ctl" => Receptor.Drive.Ctl.handle op a r
  | "results" => Receptor.Drive.Results.handle op a r
  | "life" => Receptor.Drive.Life.handle op a r
  | "sock" => Receptor.Drive.Sock.handle op a r
  | "crash" => Receptor.Drive.Crash.handle op a r
  | "stream" => Receptor.Drive.Stream.handle op a r
  | "mirror" => Receptor.Drive.Mirror.handle op a r
  | "link" => Receptor.Drive.Link.handle op a r
  | "ping" => Receptor.Drive.Ping.handle op a r
  | "accept" => Receptor.Drive.Accept.handle op a r
  | _ => throw s!"bad-op unknown engine {e}"

def handleLine (line : String) : String :=
  match Json.parse line with
  | .error err => (jObj [("bad-op", Json.str s!"parse: {err}")]).compress
  | .ok j =>
    let res : Except String Reply := do
      let e ← getStr j "e"
      let op ← getStr j "op"
      let a ← j.getObjVal? "a"
      let r := (optField j "r").getD Json.null
      dispatch e op a r
    match res with
    | .ok rep => rep.toJson.compress
    | .error err => (jObj [("bad-op", Json.str err)]).compress

partial def loop (h : IO.FS.Stream) (out : IO.FS.Stream) : IO Unit := do
  let line ← h.getLine
  if line.isEmpty then return ()
  let l := line.trimAsciiEnd.toString
  if l.isEmpty then loop h out else
  out.putStrLn (handleLine l)
  out.flush
  loop h out

def main : IO Unit := do loop (← IO.getStdin) (← IO.getStdout)
