import Receptor.Model.Bridge
/-!
# The two ends of a mesh stream (pkg/netceptor/conn.go: `DialContext`, `Listener.acceptLoop`) — property C03

What Receptor adds on top of a QUIC stream: the dialler writes one zero byte so that the listener's
`AcceptStream` returns, and the listener reads exactly one byte with a one-byte buffer, checks it and hands
the rest of the stream to the application.  The QUIC stream itself is not modelled; what is assumed of it
(quic-go's `Stream.Read` contract, in the trusted base) is the predicate `Delivers`: the reads return the
written bytes in order in chunks of any sizes, a read returns at least one byte or the end of the stream, and
the end of the stream may come together with the last bytes.
-/
namespace Receptor.StreamEnd
open Receptor.Bridge

/-- a read returns at least one byte, or the end of the stream (possibly both) -/
def WF (rs : List ReadRes) : Prop := ∀ r ∈ rs, r.data ≠ [] ∨ r.err = true

/-- `rs` is one way a reliable ordered stream can present the closed byte sequence `w` to its reader -/
def Delivers (rs : List ReadRes) (w : Bytes) : Prop :=
  upToFirstErr rs = w ∧ hasErr rs = true ∧ WF rs

/-- the end of the stream, seen again by every later read -/
def eofOnly : List ReadRes := [⟨[], true⟩]

/-- one `Read` with a buffer of `k` bytes on a stream whose data arrives as the chunks of the script:
at most `k` bytes of the chunk at the head; the end of the stream is reported with the bytes that
exhaust it.  `none`: nothing has arrived yet, the read blocks. -/
def readK (k : Nat) : List ReadRes → Option (ReadRes × List ReadRes)
  | [] => none
  | c :: rest =>
    if c.data.length ≤ k then some (c, if c.err then eofOnly else rest)
    else some (⟨c.data.take k, false⟩, ⟨c.data.drop k, c.err⟩ :: rest)

inductive Accept where
  | pending
  | refusedReadError
  | refusedBadFirstByte
  | accepted (rest : List ReadRes)
  deriving DecidableEq, Repr

/-- `Listener.acceptLoop` after `AcceptStream`: read one byte with a one-byte buffer; `byteWithEof`
(regenerated fact) says whether the byte is accepted when the end of the stream comes with it. -/
def accept (byteWithEof : Bool) (rs : List ReadRes) : Accept :=
  match readK 1 rs with
  | none => .pending
  | some (r, rest) =>
    let err := r.err && !(byteWithEof && r.data.length == 1)
    if err then .refusedReadError
    else if r.data != [0] then .refusedBadFirstByte
    else .accepted rest

/-- what the dialler puts on the stream: the zero byte of `DialContext`, then the application's bytes -/
def dialled (d : Bytes) : Bytes := 0 :: d

/-- reads with buffers of the given sizes, until the end of the stream or until the script blocks -/
def readMany : List Nat → List ReadRes → List ReadRes
  | [], _ => []
  | k :: ks, rs =>
    match readK k rs with
    | none => []
    | some (r, rest) => if r.err then [r] else r :: readMany ks rest

/-- a chain of relays: each stage is a reliable stream carrying what the previous relay wrote, read by the
next relay (`bridgeHalf`), e.g. TCP client → proxy → mesh stream → proxy → TCP server -/
def chainOut : List (List ReadRes) → Bytes → Bytes
  | [], w => w
  | rs :: more, _ => chainOut more (bridgeHalf true {} rs {}).written

def ChainDelivers : List (List ReadRes) → Bytes → Prop
  | [], _ => True
  | rs :: more, w => Delivers rs w ∧ ChainDelivers more (bridgeHalf true {} rs {}).written

end Receptor.StreamEnd
