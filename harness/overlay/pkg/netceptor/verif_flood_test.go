package netceptor

// C06 (and C01 protocol layer / C11 duplicate handling) harness: handleRoutingUpdate,
// makeRoutingUpdate/sendRoutingUpdate and removeConnection on a real Netceptor whose tables are
// set white-box; every message put on a connection's write channel is recorded.

import (
	"context"
	"encoding/json"
	"fmt"
	"runtime"
	"sort"
	"strings"
	"sync"
	"testing"
	"time"
)

type floodUpdateArg struct {
	Node  string             `json:"node"`
	ID    string             `json:"id"`
	Epoch uint64             `json:"epoch"`
	Seq   uint64             `json:"seq"`
	Conns map[string]float64 `json:"conns"` // null = nil map
	Fwd   string             `json:"fwd"`
	Susp  uint64             `json:"susp"`
}

type floodStepArg struct {
	K    string          `json:"k"` // update | remove | originate
	U    *floodUpdateArg `json:"u,omitempty"`
	Recv string          `json:"recv,omitempty"`
	Peer string          `json:"peer,omitempty"`
}

type floodNodeArg struct {
	ID    string                        `json:"id"`
	Epoch uint64                        `json:"epoch"`
	Conns map[string]float64            `json:"conns"`
	Info  map[string][2]uint64          `json:"info"`
	Known map[string]map[string]float64 `json:"known"`
	Seen  []string                      `json:"seen"`
}

type floodArgs struct {
	Node  floodNodeArg   `json:"node"`
	Steps []floodStepArg `json:"steps"`
}

// verifWaitFlood blocks until no goroutine spawned by Netceptor.flood is left.
func verifWaitFlood() {
	buf := make([]byte, 1<<20)
	for i := 0; i < 20000; i++ {
		n := runtime.Stack(buf, true)
		if !strings.Contains(string(buf[:n]), "(*Netceptor).flood.") {
			return
		}
		time.Sleep(50 * time.Microsecond)
	}
	panic("verif: flood goroutines did not finish")
}

func hexKeys(m map[string]float64) map[string]float64 {
	if m == nil {
		return nil
	}
	out := map[string]float64{}
	for k, v := range m {
		out[verifHex([]byte(k))] = v
	}
	return out
}

func unhexKeys(m map[string]float64) map[string]float64 {
	if m == nil {
		return nil
	}
	out := map[string]float64{}
	for k, v := range m {
		out[string(verifUnhex(k))] = v
	}
	return out
}

func floodUpdateJSON(self string, ru *routingUpdate) map[string]interface{} {
	id := verifHex([]byte(ru.UpdateID))
	if ru.NodeID == self {
		id = verifHex([]byte("fresh")) // random ID of an update this node originated
	}
	var conns interface{}
	if ru.Connections != nil {
		conns = hexKeys(ru.Connections)
	}
	return map[string]interface{}{"node": verifHex([]byte(ru.NodeID)), "id": id, "epoch": ru.UpdateEpoch, "seq": ru.UpdateSequence,
		"conns": conns, "fwd": verifHex([]byte(ru.ForwardingNode)), "susp": ru.SuspectedDuplicate}
}

func floodApply(op string, raw json.RawMessage) interface{} {
	var a floodArgs
	if err := json.Unmarshal(raw, &a); err != nil {
		panic(err)
	}
	if op == "burst" {
		return floodBurst(raw)
	}
	if op != "run" {
		panic("verif: unknown op " + op)
	}
	id := string(verifUnhex(a.Node.ID))
	s, cancel := verifQuietNode(id, 30)
	defer cancel()
	s.epoch = a.Node.Epoch
	reqFlood := make(chan time.Duration, 1024)
	reqTable := make(chan time.Duration, 1024)
	s.sendRouteFloodChan = reqFlood
	s.updateRoutingTableChan = reqTable
	chans := map[string]chan []byte{}
	for peer, cost := range a.Node.Conns {
		p := string(verifUnhex(peer))
		ch := make(chan []byte, 4096)
		ctx, cf := context.WithCancel(s.context)
		s.connections[p] = &connInfo{ReadChan: make(chan []byte), WriteChan: ch, Context: ctx, CancelFunc: cf, Cost: cost,
			lastReceivedData: time.Now(), lastReceivedLock: &sync.RWMutex{}, logger: s.Logger}
		chans[p] = ch
	}
	for n, st := range a.Node.Info {
		s.knownNodeInfo[string(verifUnhex(n))] = &nodeInfo{Epoch: st[0], Sequence: st[1]}
	}
	for n, m := range a.Node.Known {
		s.knownConnectionCosts[string(verifUnhex(n))] = unhexKeys(m)
	}
	for _, u := range a.Node.Seen {
		s.seenUpdates[string(verifUnhex(u))] = time.Now()
	}
	var out []map[string]interface{}
	for _, st := range a.Steps {
		st := st
		returned := verifTimed(10*time.Second, func() {
			switch st.K {
			case "update":
				ru := &routingUpdate{NodeID: string(verifUnhex(st.U.Node)), UpdateID: string(verifUnhex(st.U.ID)), UpdateEpoch: st.U.Epoch,
					UpdateSequence: st.U.Seq, Connections: unhexKeys(st.U.Conns), ForwardingNode: string(verifUnhex(st.U.Fwd)),
					SuspectedDuplicate: st.U.Susp}
				s.handleRoutingUpdate(ru, string(verifUnhex(st.Recv)))
			case "remove":
				s.removeConnection(string(verifUnhex(st.Peer)))
			case "originate":
				s.sendRoutingUpdate(0)
			}
		})
		if !returned {
			// the call never came back (a lock is held for ever): everything after it would hang too
			out = append(out, map[string]interface{}{"wedged": true})
			break
		}
		// a lock leaked by the call shows at the next acquisition: probe the locks the other sessions need
		if !verifTimed(2*time.Second, func() {
			s.knownNodeLock.Lock()
			s.knownNodeLock.Unlock() //nolint:staticcheck
			s.seenUpdatesLock.Lock()
			s.seenUpdatesLock.Unlock() //nolint:staticcheck
			s.connLock.Lock()
			s.connLock.Unlock() //nolint:staticcheck
		}) {
			out = append(out, map[string]interface{}{"wedged": true, "after": "lock left held"})
			break
		}
		if st.K == "remove" {
			// the session's own channel disappears with it
			delete(chans, string(verifUnhex(st.Peer)))
		}
		verifWaitFlood()
		obs := map[string]interface{}{}
		sent := []map[string]interface{}{}
		peers := make([]string, 0, len(chans))
		for p := range chans {
			peers = append(peers, p)
		}
		sort.Strings(peers)
		for _, p := range peers {
			for {
				select {
				case b := <-chans[p]:
					if len(b) > 0 && b[0] == MsgTypeRoute {
						ru := &routingUpdate{}
						if err := json.Unmarshal(b[1:], ru); err == nil {
							sent = append(sent, map[string]interface{}{"to": verifHex([]byte(p)), "u": floodUpdateJSON(id, ru)})
							continue
						}
					}
					sent = append(sent, map[string]interface{}{"to": verifHex([]byte(p)), "raw": verifHex(b)})
					continue
				default:
				}
				break
			}
		}
		obs["sent_set"] = sent
		info := map[string][2]uint64{}
		s.knownNodeLock.RLock()
		for n, ni := range s.knownNodeInfo {
			info[verifHex([]byte(n))] = [2]uint64{ni.Epoch, ni.Sequence}
		}
		known := map[string]map[string]float64{}
		for n, m := range s.knownConnectionCosts {
			known[verifHex([]byte(n))] = hexKeys(m)
			if known[verifHex([]byte(n))] == nil {
				known[verifHex([]byte(n))] = map[string]float64{}
			}
		}
		s.knownNodeLock.RUnlock()
		obs["info"] = info
		obs["known"] = known
		seen := []string{}
		s.seenUpdatesLock.RLock()
		for u := range s.seenUpdates {
			seen = append(seen, verifHex([]byte(u)))
		}
		s.seenUpdatesLock.RUnlock()
		obs["seen_set"] = seen
		s.connLock.RLock()
		conns := map[string]float64{}
		for p, ci := range s.connections {
			conns[verifHex([]byte(p))] = ci.Cost
		}
		s.connLock.RUnlock()
		obs["conns"] = conns
		s.sequenceLock.RLock()
		obs["seq"] = s.sequence
		s.sequenceLock.RUnlock()
		obs["reqflood"] = len(reqFlood)
		obs["reqtable"] = len(reqTable)
		for len(reqFlood) > 0 {
			<-reqFlood
		}
		for len(reqTable) > 0 {
			<-reqTable
		}
		obs["shutdown"] = s.context.Err() != nil
		out = append(out, obs)
		if s.context.Err() != nil {
			break
		}
	}
	return map[string]interface{}{"ok": out, "nontrivial": true}
}

type floodBurstArgs struct {
	Trials int    `json:"trials"`
	Copies int    `json:"copies"`
	Susp   uint64 `json:"susp"`
}

// floodBurst: the same update arrives over several connections at the same instant (each connection has its own
// runProtocol goroutine); how many times is it relayed to a neighbour it did not come from?
func floodBurst(raw json.RawMessage) interface{} {
	var a floodBurstArgs
	if err := json.Unmarshal(raw, &a); err != nil {
		panic(err)
	}
	s, cancel := verifQuietNode("me", 30)
	defer cancel()
	s.epoch = 1000
	s.sendRouteFloodChan = make(chan time.Duration, 16)
	s.updateRoutingTableChan = make(chan time.Duration, 16)
	recvs := []string{"a", "b", "c", "d", "e", "f"}[:a.Copies]
	chans := map[string]chan []byte{}
	for _, p := range append(append([]string{}, recvs...), "t") {
		ch := make(chan []byte, 4096)
		ctx, cf := context.WithCancel(s.context)
		s.connections[p] = &connInfo{ReadChan: make(chan []byte), WriteChan: ch, Context: ctx, CancelFunc: cf, Cost: 1,
			lastReceivedData: time.Now(), lastReceivedLock: &sync.RWMutex{}, logger: s.Logger}
		chans[p] = ch
	}
	s.knownNodeInfo["o"] = &nodeInfo{Epoch: 100, Sequence: 5}
	s.knownConnectionCosts["o"] = map[string]float64{"x": 1}
	twice, never := 0, 0
	for i := 0; i < a.Trials; i++ {
		uid := fmt.Sprintf("n%d", i)
		start := make(chan struct{})
		var wg sync.WaitGroup
		for _, r := range recvs {
			ru := &routingUpdate{NodeID: "o", UpdateID: uid, UpdateEpoch: 100, UpdateSequence: uint64(6 + i),
				Connections: map[string]float64{"x": 1}, ForwardingNode: r, SuspectedDuplicate: a.Susp}
			wg.Add(1)
			go func(ru *routingUpdate, r string) {
				defer wg.Done()
				<-start
				s.handleRoutingUpdate(ru, r)
			}(ru, r)
		}
		close(start)
		if !verifTimed(10*time.Second, wg.Wait) {
			return map[string]interface{}{"wedged": true}
		}
		verifWaitFlood()
		n := 0
		for p, ch := range chans {
			for len(ch) > 0 {
				b := <-ch
				if p != "t" || len(b) == 0 || b[0] != MsgTypeRoute {
					continue
				}
				got := &routingUpdate{}
				if err := json.Unmarshal(b[1:], got); err == nil && got.UpdateID == uid {
					n++
				}
			}
		}
		for len(s.sendRouteFloodChan) > 0 {
			<-s.sendRouteFloodChan
		}
		for len(s.updateRoutingTableChan) > 0 {
			<-s.updateRoutingTableChan
		}
		if n > 1 {
			twice++
		}
		if n == 0 {
			never++
		}
	}
	return map[string]interface{}{"trials": a.Trials, "twice": twice, "never": never}
}

func floodGen(v *verifRun) {
	// the same update over several connections at once: ordinary updates and suspected-duplicate notices
	if v.n > 0 {
		trials := 1500
		if v.n > 1000 {
			trials = 6000
		}
		v.do(floodApply, "burst", floodBurstArgs{Trials: trials, Copies: 4, Susp: 7})
		v.do(floodApply, "burst", floodBurstArgs{Trials: trials, Copies: 4, Susp: 0})
	}
	names := []string{"a", "b", "c", "d", "e"}
	hx := func(s string) string { return verifHex([]byte(s)) }
	for i := 0; i < v.n; i++ {
		self := "me"
		ownEpoch := uint64(1000)
		node := floodNodeArg{ID: hx(self), Epoch: ownEpoch, Conns: map[string]float64{}, Info: map[string][2]uint64{},
			Known: map[string]map[string]float64{}, Seen: []string{}}
		for _, n := range names[:1+v.rng.Intn(4)] {
			if v.rng.Intn(4) != 0 {
				node.Conns[hx(n)] = float64(1 + v.rng.Intn(3))
			}
		}
		// per-origin generator state: current epoch and sequence
		epoch := map[string]uint64{}
		seq := map[string]uint64{}
		for _, n := range names {
			epoch[n] = uint64(100 * (1 + v.rng.Intn(3)))
			seq[n] = uint64(v.rng.Intn(3))
		}
		if v.rng.Intn(3) == 0 { // a node that already knows something
			for _, n := range names[:2] {
				node.Info[hx(n)] = [2]uint64{epoch[n], seq[n]}
				m := map[string]float64{}
				for _, o := range names {
					if o != n && v.rng.Intn(2) == 0 {
						m[hx(o)] = float64(1 + v.rng.Intn(3))
					}
				}
				node.Known[hx(n)] = m
			}
		}
		// the node's own row, as the established sessions have written it: never pruned by anybody's update
		if len(node.Conns) > 0 && v.rng.Intn(4) != 0 {
			own := map[string]float64{}
			for k, c := range node.Conns {
				own[k] = c
			}
			node.Known[hx(self)] = own
		}
		var past []floodUpdateArg
		var steps []floodStepArg
		nid := 0
		for k := 2 + v.rng.Intn(8); k > 0; k-- {
			recv := names[v.rng.Intn(len(names))]
			switch r := v.rng.Intn(20); {
			case r < 10: // a genuine update of some origin, usually newer, sometimes older
				o := names[v.rng.Intn(len(names))]
				switch v.rng.Intn(8) {
				case 0:
					epoch[o] += 100 // restart: new epoch, sequence starts again
					seq[o] = 0
				case 1:
					if epoch[o] > 100 { // an update from an earlier run, possibly with a high sequence
						nid++
						conns := map[string]float64{hx(self): 1}
						u := floodUpdateArg{Node: hx(o), ID: hx(fmt.Sprintf("u%d", nid)), Epoch: epoch[o] - 100, Seq: seq[o] + uint64(v.rng.Intn(5)), Conns: conns, Fwd: hx(recv)}
						steps = append(steps, floodStepArg{K: "update", U: &u, Recv: hx(recv)})
						past = append(past, u)
						continue
					}
				}
				if v.rng.Intn(5) != 0 {
					seq[o]++
				}
				nid++
				var conns map[string]float64
				if v.rng.Intn(10) != 0 {
					conns = map[string]float64{}
					for _, p := range append(names, self) {
						if p != o && v.rng.Intn(3) == 0 {
							conns[hx(p)] = float64(1 + v.rng.Intn(3))
						}
					}
				}
				u := floodUpdateArg{Node: hx(o), ID: hx(fmt.Sprintf("u%d", nid)), Epoch: epoch[o], Seq: seq[o], Conns: conns, Fwd: hx(recv)}
				steps = append(steps, floodStepArg{K: "update", U: &u, Recv: hx(recv)})
				past = append(past, u)
			case r < 13 && len(past) > 0: // exact replay (same ID), possibly via another neighbour
				u := past[v.rng.Intn(len(past))]
				steps = append(steps, floodStepArg{K: "update", U: &u, Recv: hx(recv)})
			case r < 15 && len(past) > 0: // same content under a new ID (duplicate that escaped the seen table)
				u := past[v.rng.Intn(len(past))]
				nid++
				u.ID = hx(fmt.Sprintf("u%d", nid))
				steps = append(steps, floodStepArg{K: "update", U: &u, Recv: hx(recv)})
			case r < 16: // update naming ourselves as origin
				nid++
				e := []uint64{ownEpoch, ownEpoch + 5, ownEpoch - 5}[v.rng.Intn(3)]
				susp := []uint64{0, 0, ownEpoch, ownEpoch + 5}[v.rng.Intn(4)]
				u := floodUpdateArg{Node: hx(self), ID: hx(fmt.Sprintf("u%d", nid)), Epoch: e, Seq: uint64(v.rng.Intn(4)), Conns: map[string]float64{}, Fwd: hx(recv), Susp: susp}
				steps = append(steps, floodStepArg{K: "update", U: &u, Recv: hx(recv)})
			case r < 17: // suspected-duplicate notice about some origin
				o := names[v.rng.Intn(len(names))]
				nid++
				susp := []uint64{epoch[o], epoch[o] + 100, 7}[v.rng.Intn(3)]
				u := floodUpdateArg{Node: hx(o), ID: hx(fmt.Sprintf("u%d", nid)), Epoch: epoch[o] - 50, Seq: uint64(v.rng.Intn(9)), Conns: map[string]float64{hx(self): 1}, Fwd: hx(recv), Susp: susp}
				steps = append(steps, floodStepArg{K: "update", U: &u, Recv: hx(recv)})
				past = append(past, u)
			case r < 18: // empty origin
				nid++
				u := floodUpdateArg{Node: "", ID: hx(fmt.Sprintf("u%d", nid)), Epoch: 5, Seq: 5, Conns: map[string]float64{}, Fwd: hx(recv)}
				steps = append(steps, floodStepArg{K: "update", U: &u, Recv: hx(recv)})
			case r < 19:
				steps = append(steps, floodStepArg{K: "remove", Peer: hx(names[v.rng.Intn(len(names))])})
			default:
				steps = append(steps, floodStepArg{K: "originate"})
			}
		}
		v.do(floodApply, "run", floodArgs{Node: node, Steps: steps})
	}
}

func TestVerifFlood(t *testing.T) {
	v := verifOpen(t, "flood")
	v.run(floodApply, floodGen)
}
