import Receptor.Drive.Util
import Receptor.Model.DER
import Receptor.Generated.Facts
namespace Receptor.Drive.DER
open Lean Receptor.Drive Receptor.DER

def errName : Err → String
  | .invalidUTF8 => "err" | .syntax => "err" | .truncated => "err" | .trailing => "err" | .structural => "err"

def namesJson : Except Err (List Bytes) → Json
  | .ok l => jObj [("ok", jArr (l.map jHex))]
  | .error _ => jObj [("err", Json.bool true)]

def handle (op : String) (a r : Json) : Except String Reply := do
  match op with
  | "san" =>
    let dns ← getHexList a "dns"
    let ips ← getHexList a "ips"
    let ids ← getHexList a "ids"
    match stripOfFact Receptor.Facts.der_strip with
    | none => pure { m := jObj [("unmodelled", Json.str "strip fact unknown")] }
    | some s =>
      pure { m := jObj [("ok", jHex (makeSAN s dns ips ids))] }
  | "names" =>
    let ext ← getHex a "bytes"
    if unmodelled ext then pure { m := jObj [("unmodelled", Json.str "string type / high tag")] }
    else pure { m := namesJson (receptorNames ext) }
  | "roundtrip" =>
    -- property predicate on the implementation's observation: encode then decode gives the IDs
    let ids ← getHexList a "ids"
    let allValid := ids.all validUTF8
    let expect := if allValid then jObj [("ok", jArr (ids.map jHex))] else jObj [("err", Json.bool true)]
    let holds := r == expect
    pure { m := expect, prop := some holds,
           why := if holds then "" else "names read back differ from the requested node IDs",
           sig := if holds then "" else
             (if ids.any (fun i => i.length ≥ 113) then "C20/roundtrip/node-id-of-113-bytes-or-more"
              else "C20/roundtrip/other") }
  | _ => throw s!"bad-op der {op}"

end Receptor.Drive.DER
