import Receptor.Drive.Util
import Receptor.Model.Routing
namespace Receptor.Drive.Route
open Lean Receptor.Drive Receptor.Routing

abbrev Known := List (Node × List (Node × Nat))

def getKnown (j : Json) : Except String Known := do
  let o ← (← j.getObjVal? "known").getObj?
  o.toList.mapM fun (k, v) => do
    match fromHex k with
    | none => throw "bad hex"
    | some n =>
      let es ← (← v.getObj?).toList.mapM fun (p, c) => do
        match fromHex p with
        | some b => pure (b, ← c.getNat?)
        | none => throw "bad hex"
      pure (n, es)

def graphOf (k : Known) : Graph :=
  { adj := fun u => ((k.find? fun e => e.1 == u).map (·.2)).getD [],
    isKey := fun v => k.any fun e => e.1 == v }

def totalWeight (k : Known) : Nat := k.foldl (fun a e => e.2.foldl (fun b x => b + x.2) a) 0

/-- labels from `src` by the model's algorithm (FIFO schedule); `none` if the pop budget runs out -/
def labels (k : Known) (src : Node) : Option St :=
  let keys := k.map (·.1)
  runFifo (graphOf k) (keys.length * (totalWeight k + 2) + 10) (initSt src keys)

def handle (op : String) (a r : Json) : Except String Reply := do
  match op with
  | "table" =>
    let self ← getHex a "self"
    let k ← getKnown a
    let keys := k.map (·.1)
    match labels k self with
    | none => pure { m := jObj [("unmodelled", Json.str "model ran out of pop budget")] }
    | some s =>
      let costJ := jObj (keys.map fun n =>
        (toHex n, match (if n == self then some 0 else s.cost n) with | some c => jNat c | none => Json.str "inf"))
      let modelTable := keys.filterMap fun d =>
        if d == self then none else (nextHop s self (keys.length + 2) d).map fun h => (toHex d, jHex h)
      -- property predicate on the implementation's table: every reachable key has a hop that is a
      -- direct neighbour on a least-cost path, unreachable ones have none, costs are the least costs
      let rok := (r.getObjVal? "ok").toOption.getD Json.null
      let rtable := (rok.getObjVal? "table").toOption.getD Json.null
      let rcost := (rok.getObjVal? "cost").toOption.getD Json.null
      let g := graphOf k
      let bad := keys.filterMap fun d =>
        if d == self then none else
        let hop := (getHex rtable (toHex d)).toOption
        match s.cost d, hop with
        | none, none => none
        | none, some _ => some (toHex d ++ ": unreachable but has a next hop")
        | some _, none => some (toHex d ++ ": reachable but has no next hop")
        | some c, some h =>
          match (g.adj self).find? fun e => e.1 == h with
          | none => some (toHex d ++ ": next hop is not a direct neighbour")
          | some (_, w) =>
            let viaH : Option Nat := if h == d then some 0 else (labels k h).bind fun sh => sh.cost d
            match viaH with
            | some rr => if w + rr == c then none else some (toHex d ++ ": next hop not on a least-cost path")
            | none => some (toHex d ++ ": destination unreachable from the next hop")
      let costOK := rcost == costJ
      let extra := ((rtable.getObj?).toOption.map fun o => o.toList.filter fun (dk, _) => !(keys.any fun n => toHex n == dk)).getD []
      let holds := bad.isEmpty && costOK && extra.isEmpty
      let m := jObj [("ok", jObj [("table", if holds then rtable else jObj modelTable), ("cost", costJ)])]
      pure { m := m, prop := some holds,
             why := if holds then "" else
               (if !costOK then "reported path costs are not the least costs" else
                if !extra.isEmpty then "table has an entry for an unknown node" else String.intercalate "; " bad),
             sig := if holds then "" else (if !costOK then "C01/table/path-cost-not-least" else "C01/table/next-hop-invalid") }
  | _ => throw s!"bad-op route {op}"

end Receptor.Drive.Route
