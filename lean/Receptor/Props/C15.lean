import Receptor.Model.Work
import Receptor.Generated.Facts
/-!
# C15 — signature-protected work cannot be driven remotely without a valid token
-/
namespace Receptor.Work

/-- **Tie (translator)**: `processSignature` (decision by work type / signwork flag, skip only
for the Unix socket, unexpected tokens refused) and, in every gated arm of `ControlFunc`, the
call to it before the effect; `VerifySignature` refuses an empty token and an unset key and
checks validity and audience. -/
theorem C15_facts :
    Receptor.Facts.sig_gate = "!shouldVerifySignature && signature != \"\":refuse;shouldVerifySignature && !connIsUnix:VerifySignature"
    ∧ Receptor.Facts.sig_should = "remote:signWork;ok && wt.verifySignature"
    ∧ Receptor.Facts.sig_unix = "addr.Network() == \"unix\""
    ∧ Receptor.Facts.sig_arms = "submit:gate<AllocateUnit,AllocateRemoteUnit;cancel,release,force-release:findUnit<gate<Cancel,Release;results:findUnit<gate<GetResults"
    ∧ Receptor.Facts.sig_verify = "empty;nokey;ParseWithClaims;!token.Valid;VerifyAudience(w.nc.NodeID(), true)" := by decide +kernel

/-- **effect_requires_token.** For a verifying work type, over anything but the local Unix
socket, a submit / cancel / release / force-release / results command takes effect only with a
token that is present and valid (correctly signed by the configured key, unexpired, addressed to
this node). -/
theorem effect_requires_token (sub : Sub) (found : Bool) (t : TypeCfg) (c : Conn) (tok : Token) (key : Bool)
    (hg : gated sub = true) (hv : shouldVerify t = true) (hc : c ≠ .unix)
    (h : dispatch true sub found t c tok key = .effect) :
    tok.present = true ∧ tok.valid = true ∧ key = true := by
  unfold dispatch at h
  simp only [hg, Bool.not_true, Bool.false_eq_true, if_false] at h
  split at h
  · cases h
  · simp only [gate, hv, Bool.not_true, Bool.false_and, Bool.false_eq_true, if_false, Bool.true_and] at h
    have : (c != Conn.unix) = true := by simp [hc]
    simp only [this, if_true] at h
    by_cases hp : (tok.present && key && tok.valid) = true
    · simp at hp; exact ⟨hp.1.1, hp.2, hp.1.2⟩
    · simp [hp] at h

/-- **refused_has_no_effect.** A refused command does not take effect (the gate comes before the
effect in every arm): the only outcomes are effect, refusal, unknown unit, information. -/
theorem refused_has_no_effect (sub : Sub) (found : Bool) (t : TypeCfg) (c : Conn) (tok : Token) (key : Bool)
    (hg : gated sub = true) (hr : gate t c tok key ≠ .pass) :
    dispatch true sub found t c tok key ≠ .effect := by
  unfold dispatch
  simp only [hg, Bool.not_true, Bool.false_eq_true, if_false]
  split
  · simp
  · cases hgt : gate t c tok key with
    | pass => exact absurd hgt hr
    | refuseUnexpected => simp
    | refuseInvalid => simp

/-- **unexpected_token_refused.** A token sent to a work type that does not expect one is
refused, on every kind of connection. -/
theorem unexpected_token_refused (t : TypeCfg) (c : Conn) (tok : Token) (key : Bool)
    (hv : shouldVerify t = false) (hp : tok.present = true) : gate t c tok key = .refuseUnexpected := by
  simp [gate, hv, hp]

/-- **unix_socket_exempt.** Exactly the local Unix socket is exempt: there a verifying type
passes without a token, anywhere else it does not. -/
theorem unix_socket_exempt (t : TypeCfg) (tok : Token) (key : Bool) (hv : shouldVerify t = true) :
    gate t .unix tok key = .pass ∧ (tok.present = false → gate t .other tok key = .refuseInvalid) := by
  constructor
  · simp [gate, hv]
  · intro hp; simp [gate, hv, hp]

/-- status and list are information only: they never take effect, with or without a token -/
theorem info_commands_never_effect (gb : Bool) (sub : Sub) (found : Bool) (t : TypeCfg) (c : Conn) (tok : Token) (key : Bool)
    (hg : gated sub = false) : dispatch gb sub found t c tok key ≠ .effect := by
  unfold dispatch
  simp only [hg, Bool.not_false, if_true]
  split <;> simp

/-- Non-vacuity: a verifying local type over TCP with an expired token is refused; with a valid
token it takes effect; over the Unix socket no token is needed. -/
example : dispatch true .submit true ⟨false, false, true, true⟩ .other ⟨true, false⟩ true = .refused .refuseInvalid
    ∧ dispatch true .submit true ⟨false, false, true, true⟩ .other ⟨true, true⟩ true = .effect
    ∧ dispatch true .cancel true ⟨false, false, true, true⟩ .unix ⟨false, false⟩ true = .effect := by decide

end Receptor.Work
