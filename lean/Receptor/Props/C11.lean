import Receptor.Model.Proto
import Receptor.Proofs.Flood
import Receptor.Generated.Facts
/-!
# C11 — only admissible peers stay connected: allow-list, identity, cost, one per ID
-/
namespace Receptor.Proto

/-- **Tie (translator)**: the pre-establishment checks and their order (empty ID, own ID,
allow-list, per-node cost, already-connected test and registration under one `connLock`
critical section), the post-establishment checks, and `removeConnection` on every exit of a
registered session. -/
theorem C11_facts :
    Receptor.Facts.adm_empty_id_guard = true ∧ Receptor.Facts.adm_remove_on_all_exits = true
    ∧ Receptor.Facts.adm_checks = "empty-id,own-id,allowed-peers,node-cost,lock,already-connected,register,unlock"
    ∧ Receptor.Facts.adm_post_checks = "ri.ForwardingNode != remoteNodeID:remove,reject;ri.NodeID == remoteNodeID;!ok:remoteEstablished:remove,reject;remoteCost != connectionCost:remove,reject"
    ∧ Receptor.Facts.adm_done_exit = "s.removeConnection(remoteNodeID);return nil" := by decide +kernel

/-- **established_admissible.** A session becomes an established connection only if the peer's
announced node ID is non-empty, on the allow-list (when one is set), different from the local
ID and not already connected; the link cost is the per-node override or the backend's. -/
theorem established_admissible (B : Backend) (sh : Shared) (s : Sess) (ru : RU)
    (h : (admitPeer allGuards B sh s ru).2.2 = .established) :
    ru.fwd ≠ [] ∧ ru.fwd ≠ sh.self ∧ (∀ l, B.allowed = some l → ru.fwd ∈ l) ∧ ru.fwd ∉ sh.connections
      ∧ (admitPeer allGuards B sh s ru).2.1.remoteID = ru.fwd
      ∧ (admitPeer allGuards B sh s ru).2.1.cost = (lookup B.nodeCost ru.fwd).getD B.cost
      ∧ (admitPeer allGuards B sh s ru).1.connections = sh.connections ++ [ru.fwd] := by
  by_cases h1 : ru.fwd = sh.self
  · simp [admitPeer, h1] at h
  by_cases h2 : ru.fwd = []
  · simp [admitPeer, h1, h2, allGuards] at h
  by_cases h3 : notAllowed B ru.fwd = true
  · simp [admitPeer, h1, h2, allGuards, h3] at h
  by_cases h4 : connected sh ru.fwd = true
  · simp [admitPeer, h1, h2, allGuards, h3, h4] at h
  refine ⟨h2, h1, ?_, by simpa [connected] using h4, ?_, ?_, ?_⟩
  · intro l hl
    simp only [notAllowed, hl] at h3
    simpa using h3
  all_goals simp [admitPeer, h1, h2, allGuards, h3, h4]

/-- the only way a session gets established is the handshake decision -/
theorem established_only_by_admit (G : Guards) (B : Backend) (sh : Shared) (s : Sess) (d : Dgram)
    (h : (step G B sh s d).2.2 = .established) :
    s.established = false ∧ ∃ body ru, d = .route body ∧ decodeRU body = some ru ∧ step G B sh s d = admitPeer G B sh s ru := by
  unfold step at h ⊢
  cases d with
  | empty => simp only at h; split at h <;> cases h
  | data k => simp only at h; split at h <;> (try cases k) <;> simp only at h <;> (try split at h) <;> cases h
  | advert body wt =>
    simp only at h; split at h <;> (try cases hd : decodeAd body wt) <;> simp only [*] at h <;> (try split at h) <;> cases h
  | reject => cases h
  | other => cases h
  | route body =>
    simp only at h ⊢
    cases hd : decodeRU body with
    | none => rw [hd] at h; cases h
    | some ru =>
      rw [hd] at h
      simp only at h ⊢
      by_cases hest : s.established = true
      · rw [if_pos hest] at h
        exfalso
        unfold checkPeer at h
        repeat' split at h
        all_goals cases h
      · rw [if_neg hest] at h ⊢
        exact ⟨by simpa using hest, body, ru, rfl, hd, rfl⟩

/-- **rejected_leaves_nothing.** A session that is rejected at the handshake leaves the
connection table exactly as it was. -/
theorem rejected_leaves_nothing (G : Guards) (B : Backend) (sh : Shared) (s : Sess) (ru : RU) (r : Bool)
    (h : (admitPeer G B sh s ru).2.2 = .ended r) : (admitPeer G B sh s ru).1 = sh := by
  unfold admitPeer at h ⊢
  simp only at h ⊢
  repeat' split
  all_goals (first | rfl | simp_all)

theorem removeConn_nodup (sh : Shared) (id : Bytes) (hn : sh.connections.Nodup) : (removeConn sh id).connections.Nodup := by
  unfold removeConn; split
  · exact hn
  · exact hn.filter _

/-- **one_per_id.** The connection table never holds an ID twice, whatever the sessions
receive: the already-connected test and the registration are one atomic step. -/
theorem one_per_id (G : Guards) (B : Backend) (sh : Shared) (s : Sess) (d : Dgram)
    (hn : sh.connections.Nodup) : (step G B sh s d).1.connections.Nodup := by
  have hpo : ∀ b, (poison sh b).connections.Nodup := by intro b; unfold poison; split <;> exact hn
  unfold step
  cases d with
  | empty => simp only; split <;> exact hn
  | data k => simp only; split <;> (try cases k) <;> simp only <;> (try split) <;> exact hn
  | advert body wt => simp only; split <;> (try cases decodeAd body wt) <;> simp only <;> (try split) <;> exact hn
  | reject => exact removeConn_nodup _ _ hn
  | other => exact hn
  | route body =>
    simp only
    cases decodeRU body with
    | none => exact hn
    | some ru =>
      simp only
      split
      · unfold checkPeer
        repeat' split
        all_goals (first | exact hn | exact removeConn_nodup _ _ hn | exact hpo _)
      · unfold admitPeer
        simp only
        repeat' split
        all_goals (first | exact hn | skip)
        all_goals
          rename_i hc
          simp only [connected] at hc
          rw [List.nodup_append]
          refine ⟨hn, by simp, ?_⟩
          intro a ha b hb
          simp at hb; subst hb
          intro hab; subst hab
          exact hc (by simpa using ha)

/-- **identity_change_disconnects / unlisted_disconnects / cost disagreement.** An established
peer that speaks under another ID, that stops listing the local node after having listed it,
or whose cost for the link differs, is disconnected: the session ends with a reject message
and its connection is forgotten. -/
theorem post_establishment_checks (G : Guards) (sh : Shared) (s : Sess) (ru : RU)
    (hbad : ru.fwd ≠ s.remoteID ∨
            (ru.nodeID = s.remoteID ∧ (ru.conns.bind fun l => lookup l sh.self) = none ∧ s.remoteEstablished = true) ∨
            (ru.nodeID = s.remoteID ∧ ∃ c, (ru.conns.bind fun l => lookup l sh.self) = some c ∧ c ≠ s.cost)) :
    (checkPeer G sh s ru).2.2 = .ended true ∧ (checkPeer G sh s ru).1 = removeConn sh s.remoteID := by
  unfold checkPeer
  rcases hbad with h | ⟨h1, h2, h3⟩ | ⟨h1, c, h2, h3⟩
  · simp [h]
  · by_cases hf : ru.fwd ≠ s.remoteID
    · simp [hf]
    · simp [hf, h1, h2, h3]
  · by_cases hf : ru.fwd ≠ s.remoteID
    · simp [hf]
    · simp [hf, h1, h2, h3]

/-- **session_end_forgets.** When a registered session ends — by a reject of either side, by a
failed check, or because its transport ended — its ID is no longer in the connection table. -/
theorem session_end_forgets (sh : Shared) (s : Sess) (hid : s.remoteID ≠ []) :
    s.remoteID ∉ (closeSession sh s).connections ∧ s.remoteID ∉ (removeConn sh s.remoteID).connections := by
  unfold closeSession removeConn
  simp [hid, List.mem_filter]

/-- Witness of the defect repaired by 19c5769: without the empty-ID check a peer announcing no
node ID was registered as connection "" — which `removeConnection` never removes. -/
theorem C11_witness_empty_id :
    let r := step { allGuards with emptyPeerID := false } { cost := 1000000, nodeCost := [], allowed := none }
      { self := n "me", connections := [] } {} (.route (some (.obj [(n "NodeID", .str (n "p"))])))
    r.2.2 = .established ∧ r.1.connections = [[]] ∧ (closeSession r.1 r.2.1).connections = [[]] := by
  decide +kernel

end Receptor.Proto

namespace Receptor.Flood

/-- **later_duplicate_shuts_down.** A node that receives a routing update naming itself as
origin and flagged as suspected duplicate of its own epoch shuts itself down. -/
theorem later_duplicate_shuts_down (R : StaleRule) (s : NodeState) (u : Update) (recv : Node) (fresh : UpdateID)
    (hne : s.id ≠ []) (h0 : u.nodeID = s.id) (he : u.epoch ≠ s.epoch) (hs : u.suspectedDuplicate = s.epoch) :
    (step R s u recv fresh).1.shutdown = true := by
  have h1 : u.nodeID ≠ [] := by rw [h0]; exact hne
  unfold step
  rw [if_neg h1, if_pos h0]
  simp [selfStep, he, hs]

/-- **earlier_survives.** The node with the earlier epoch, seeing its own ID with a newer epoch,
keeps running, keeps its picture of the network, and floods a notice naming the newer epoch
as the suspected duplicate (so that the later node is the one to stop). -/
theorem earlier_survives (R : StaleRule) (s : NodeState) (u : Update) (recv : Node) (fresh : UpdateID)
    (hne : s.id ≠ []) (h0 : u.nodeID = s.id) (hgt : u.epoch > s.epoch) (hs : u.suspectedDuplicate ≠ s.epoch)
    (hsd : s.shutdown = false) :
    (step R s u recv fresh).1.shutdown = false ∧ (step R s u recv fresh).1.known = s.known
      ∧ ∀ a ∈ (step R s u recv fresh).2, ∃ c w, a = .send c w ∧ w.nodeID = s.id ∧ w.suspectedDuplicate = u.epoch := by
  have h1 : u.nodeID ≠ [] := by rw [h0]; exact hne
  have h2 : u.epoch ≠ s.epoch := by omega
  unfold step
  rw [if_neg h1, if_pos h0]
  simp only [selfStep, h2, hs, hgt, if_false, if_true]
  unfold originate
  by_cases hc : s.conns.isEmpty = true
  · rw [if_pos hc]; exact ⟨hsd, rfl, by simp⟩
  · rw [if_neg hc]
    refine ⟨hsd, rfl, ?_⟩
    intro a ha
    simp only [floodTo, List.mem_map] at ha
    obtain ⟨e, _, rfl⟩ := ha
    exact ⟨e.1, _, rfl, rfl, rfl⟩

end Receptor.Flood
