import Receptor.Proofs.Regex
import Receptor.Generated.Facts
/-!
# C12 — firewall: the first matching rule decides; uninterpretable rules are refused
-/
namespace Receptor.Firewall

/-- **Tie (translator)**: pattern errors are propagated by `buildComp`/`BuildComps` to
`ParseFirewallRule`, a pattern must have both delimiting slashes (length ≥ 2), the regex is
wrapped as `^(?:…)$`, and `handleMessageData` runs the rule loop (first non-continue result
breaks; initial result accept; drop returns; reject notifies unless the packet is a notice)
before looking at the destination. -/
theorem C12_facts :
    Receptor.Facts.fw_errors_propagated = true ∧ Receptor.Facts.fw_regex_minlen = true
    ∧ Receptor.Facts.fw_regex_wrap = "^(?:%s)$"
    ∧ Receptor.Facts.fw_loop = "first-non-continue-breaks|accept:continue;drop:return;reject:notice-unless-unreach,return;"
    ∧ Receptor.Facts.fw_before_dispatch = true := by decide

/-- **default_accept.** A packet no rule matches is accepted. -/
theorem default_accept (w : Wrap) (rs : List Rule) (p : Addr) (h : ∀ r ∈ rs, r.matches w p = false) :
    evalRules w rs p = .accept := by
  induction rs with
  | nil => rfl
  | cons r rs ih =>
    simp only [evalRules, h r (by simp)]
    exact ih (fun x hx => h x (by simp [hx]))

/-- **first_match_decides.** The first rule that matches dictates the verdict, whatever
follows it. -/
theorem first_match_decides (w : Wrap) (pre : List Rule) (r : Rule) (post : List Rule) (p : Addr)
    (hpre : ∀ x ∈ pre, x.matches w p = false) (hr : r.matches w p = true) :
    evalRules w (pre ++ r :: post) p = r.action.verdict := by
  induction pre with
  | nil => simp [evalRules, hr]
  | cons x xs ih =>
    simp only [List.cons_append, evalRules, hpre x (by simp)]
    exact ih (fun y hy => hpre y (by simp [hy]))

/-- … and these are the only two ways a verdict comes about. -/
theorem evalRules_cases (w : Wrap) (rs : List Rule) (p : Addr) :
    (evalRules w rs p = .accept ∧ ∀ r ∈ rs, r.matches w p = false) ∨
    ∃ pre r post, rs = pre ++ r :: post ∧ (∀ x ∈ pre, x.matches w p = false) ∧ r.matches w p = true
      ∧ evalRules w rs p = r.action.verdict := by
  induction rs with
  | nil => left; simp [evalRules]
  | cons r rs ih =>
    by_cases hm : r.matches w p = true
    · right; exact ⟨[], r, rs, rfl, by simp, hm, by simp [evalRules, hm]⟩
    · have hm' : r.matches w p = false := by simpa using hm
      cases ih with
      | inl h =>
        left
        refine ⟨by simp [evalRules, hm', h.1], ?_⟩
        intro x hx
        cases hx with
        | head => exact hm'
        | tail _ hx' => exact h.2 x hx'
      | inr h =>
        obtain ⟨pre, r', post, e, hpre, hr, hv⟩ := h
        right
        refine ⟨r :: pre, r', post, by simp [e], ?_, hr, by simp [evalRules, hm', hv]⟩
        intro x hx
        cases hx with
        | head => exact hm'
        | tail _ hx' => exact hpre x hx'

/-- **match_iff_all_fields.** A rule matches exactly when every field it gives matches the
packet's corresponding field (a field not given constrains nothing). -/
theorem match_iff_all_fields (w : Wrap) (r : Rule) (p : Addr) :
    r.matches w p = true ↔
      (∀ m, r.fromNode = some m → m.matches w p.fromNode = true) ∧
      (∀ m, r.toNode = some m → m.matches w p.toNode = true) ∧
      (∀ m, r.fromSvc = some m → m.matches w p.fromSvc = true) ∧
      (∀ m, r.toSvc = some m → m.matches w p.toSvc = true) := by
  have key : ∀ (o : Option Matcher) (x : Bytes), fieldOK w o x = true ↔ ∀ m, o = some m → m.matches w x = true := by
    intro o x
    cases o with
    | none => simp [fieldOK]
    | some m => simp [fieldOK]
  simp only [Rule.matches, Bool.and_eq_true, key]
  constructor
  · rintro ⟨⟨⟨a, b⟩, c⟩, d⟩; exact ⟨a, b, c, d⟩
  · rintro ⟨a, b, c, d⟩; exact ⟨⟨⟨a, b⟩, c⟩, d⟩

/-- a literal field matches exactly the equal string -/
theorem literal_match (w : Wrap) (a s : Bytes) : (Matcher.lit a).matches w s = true ↔ a = s := by
  simp [Matcher.matches]

/-- **regex_full_match.** With the grouped wrapping a `/r/` field matches exactly the strings
that `r` matches in full. -/
theorem regex_full_match (r : Re) (s : Bytes) :
    (Matcher.re r).matches .grouped s = true ↔ Re.Matches r s := by
  simp only [Matcher.matches, regexMatch]
  exact Re.fullMatch_iff s r

/-! ### Parsing -/

/-- `buildPat` in strict mode, case by case -/
theorem buildPat_true (p : Pat) : buildPat true p =
    if p.src = [] then .absent
    else if p.src.head? = some 47 then
      if p.src.getLast? ≠ some 47 then .bad
      else if p.src.length < 2 then .bad
      else (p.compiled.map fun r => PatOut.m (.re r)).getD .bad
    else .m (.lit p.src) := by
  unfold buildPat
  simp only [↓reduceIte]
  cases p.compiled <;> rfl

theorem buildPat_strict_no_panic (p : Pat) : buildPat true p ≠ .panic := by
  rw [buildPat_true]
  cases p.compiled <;> (repeat' split) <;> simp

/-- **bad_rule_refused (patterns).** In strict mode a given (non-empty) pattern always yields
its own constraint: a literal for plain text, the compiled expression for a well-delimited
`/…/`; nothing else is ever produced, and an empty value is the only way to leave a field
unconstrained. -/
theorem buildPat_strict (p : Pat) :
    (buildPat true p = .absent ↔ p.src = []) ∧
    (∀ x, buildPat true p = .m x →
      (p.src.head? ≠ some 47 ∧ x = .lit p.src) ∨
      (p.src.head? = some 47 ∧ p.src.getLast? = some 47 ∧ 2 ≤ p.src.length ∧ ∃ r, p.compiled = some r ∧ x = .re r)) := by
  rw [buildPat_true]
  by_cases h0 : p.src = []
  · simp [h0]
  · simp only [h0, if_false, iff_false]
    by_cases h1 : p.src.head? = some 47
    · simp only [h1, if_true]
      by_cases h2 : p.src.getLast? ≠ some 47
      · simp [h2]
      · simp only [h2, if_false]
        by_cases h3 : p.src.length < 2
        · simp [h3]
        · simp only [h3, if_false]
          cases hc : p.compiled with
          | none => simp
          | some r =>
            refine ⟨by simp, ?_⟩
            intro x hx
            right
            refine ⟨trivial, by simpa using h2, by omega, r, rfl, ?_⟩
            simpa using hx.symm
    · simp only [h1, if_false]
      refine ⟨by simp, ?_⟩
      intro x hx
      left
      exact ⟨h1, by simpa using hx.symm⟩

theorem collect_other_err : ∀ (kvs : List KV) (raw : Raw), (∃ kv ∈ kvs, kv.val = .other) →
    ∃ e, collect kvs raw = .error e := by
  intro kvs
  induction kvs with
  | nil => intro _ h; obtain ⟨_, hm, _⟩ := h; cases hm
  | cons kv rest ih =>
    intro raw h
    simp only [collect]
    cases hv : kv.val with
    | other => exact ⟨_, rfl⟩
    | str s =>
      have hrest : ∃ kv' ∈ rest, kv'.val = .other := by
        obtain ⟨k, hm, hk⟩ := h
        cases hm with
        | head => rw [hv] at hk; cases hk
        | tail _ hm' => exact ⟨k, hm', hk⟩
      simp only
      repeat' split
      all_goals (first | exact ih _ hrest | exact ⟨_, rfl⟩)

/-- **bad_rule_refused (values).** A rule containing a value that is not a string is refused,
in either mode. -/
theorem nonstring_refused (strict : Bool) (kvs : List KV) (h : ∃ kv ∈ kvs, kv.val = .other) :
    ∃ e, parseRule strict kvs = .err e := by
  obtain ⟨e, he⟩ := collect_other_err kvs {} h
  exact ⟨e, by simp [parseRule, he]⟩

/-- **bad_rule_refused (whole rule).** In strict mode a rule that parses constrains every
field exactly as its pattern says and has a recognised action; parsing never panics. -/
theorem parseRule_strict (kvs : List KV) :
    parseRule true kvs ≠ .panic ∧
    ∀ rule, parseRule true kvs = .ok rule →
      ∃ raw, collect kvs {} = .ok raw ∧ parseAction raw.action = some rule.action ∧
        buildPat true raw.fromNode ≠ .bad ∧ buildPat true raw.toNode ≠ .bad ∧
        buildPat true raw.fromSvc ≠ .bad ∧ buildPat true raw.toSvc ≠ .bad ∧
        rule.fromNode = patField (buildPat true raw.fromNode) ∧ rule.toNode = patField (buildPat true raw.toNode) ∧
        rule.fromSvc = patField (buildPat true raw.fromSvc) ∧ rule.toSvc = patField (buildPat true raw.toSvc) := by
  unfold parseRule
  cases hc : collect kvs {} with
  | error e => simp
  | ok raw =>
    simp only
    have n1 := buildPat_strict_no_panic raw.fromNode
    have n2 := buildPat_strict_no_panic raw.toNode
    have n3 := buildPat_strict_no_panic raw.fromSvc
    have n4 := buildPat_strict_no_panic raw.toSvc
    have np : ¬ (buildPat true raw.fromNode = .panic ∨ buildPat true raw.toNode = .panic ∨
        buildPat true raw.fromSvc = .panic ∨ buildPat true raw.toSvc = .panic) := by
      rintro (h | h | h | h) <;> contradiction
    simp only [np, if_false]
    constructor
    · split
      · simp
      · split <;> simp
    · intro rule h
      split at h
      · cases h
      · rename_i hb
        split at h
        · cases h
        · rename_i a ha
          cases h
          refine ⟨raw, rfl, ha, ?_, ?_, ?_, ?_, rfl, rfl, rfl, rfl⟩
          all_goals (intro hbad; exact hb (by simp [hbad]))

/-! ### Witnesses of the defects in the pinned tree (lenient mode, ungrouped wrap) -/

/-- a malformed pattern silently widened the rule: `{action: drop, tonode: "/abc"}` parsed
into "drop everything" -/
theorem C12_witness_widened :
    parseRule false [{ key := kAction, val := .str aDrop }, { key := kToNode, val := .str [47, 97, 98, 99] }]
      = .ok { action := .drop } := by decide

/-- the pattern `/` made `regexCompare` slice `[1:0]` -/
theorem C12_witness_panic :
    parseRule false [{ key := kAction, val := .str aDrop }, { key := kToNode, val := .str [47] }] = .panic := by
  decide

/-- `/a|b/` wrapped as `^a|b$` matched `ax` (and `xb`), which `a|b` does not fully match -/
theorem C12_witness_ungrouped :
    regexMatch .ungrouped (.alt (.chr 97) (.chr 98)) [97, 120] = true
    ∧ regexMatch .grouped (.alt (.chr 97) (.chr 98)) [97, 120] = false := by decide

/-- Non-vacuity: a two-rule list where the second rule decides. -/
example : evalRules .grouped
    [{ action := .drop, toSvc := some (.lit [1]) }, { action := .reject, toNode := some (.re (.star (.chr 97))) }]
    { fromNode := [5], fromSvc := [6], toNode := [97, 97], toSvc := [2] } = .reject := by decide

end Receptor.Firewall
