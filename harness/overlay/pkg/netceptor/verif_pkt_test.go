package netceptor

// Correspondence harness for the packet path (C02 codec + dispatch, C10 hop budget, C12 firewall
// position, C16 unknown-service notices).  White-box: real Netceptor objects without backends; the
// routing table, the connection table (buffered write channels) and the listeners are set directly,
// handleMessageData / SendMessageWithHopsToLive / translateData* are called in-process.

import (
	"context"
	"encoding/json"
	"fmt"
	"sort"
	"strings"
	"sync"
	"testing"
	"time"
)

// ---------------------------------------------------------------- wire engine

type wireArgs struct {
	From  string        `json:"from"`
	To    string        `json:"to"`
	FSvc  string        `json:"fsvc"`
	TSvc  string        `json:"tsvc"`
	TTL   int           `json:"ttl"`
	Data  string        `json:"data"`
	HF    uint64        `json:"hf"`
	HT    uint64        `json:"ht"`
	Names []wireNameArg `json:"names"`
	Bytes string        `json:"bytes"`
}

type wireNameArg struct {
	Name string `json:"name"`
	Hash uint64 `json:"hash"`
}

func verifQuietNode(id string, maxHops byte) (*Netceptor, context.CancelFunc) {
	ctx, cancel := context.WithCancel(context.Background())
	s := NewWithConsts(ctx, id, 16384, time.Hour, time.Hour, time.Hour, maxHops, time.Hour)
	s.Logger.SetOutput(verifDiscard{})
	return s, cancel
}

type verifDiscard struct{}

func (verifDiscard) Write(p []byte) (int, error) { return len(p), nil }

func pktJSON(md *MessageData) map[string]interface{} {
	m := map[string]interface{}{
		"from": verifHex([]byte(md.FromNode)), "to": verifHex([]byte(md.ToNode)),
		"fsvc": verifHex([]byte(md.FromService)), "tsvc": verifHex([]byte(md.ToService)),
		"ttl": int(md.HopsToLive),
	}
	if md.FromService == "unreach" && md.ToService == "unreach" {
		var u UnreachableMessage
		if json.Unmarshal(md.Data, &u) == nil && u.Problem != "" {
			m["notice"] = noticeJSON(u)
			return m
		}
	}
	m["data"] = verifHex(md.Data)
	return m
}

func noticeJSON(u UnreachableMessage) map[string]interface{} {
	return map[string]interface{}{
		"from": verifHex([]byte(u.FromNode)), "to": verifHex([]byte(u.ToNode)),
		"fsvc": verifHex([]byte(u.FromService)), "tsvc": verifHex([]byte(u.ToService)),
		"problem": u.Problem,
	}
}

var wireNode *Netceptor

func wireApply(op string, raw json.RawMessage) interface{} {
	var a wireArgs
	if err := json.Unmarshal(raw, &a); err != nil {
		panic(err)
	}
	switch op {
	case "enc":
		md := &MessageData{
			FromNode: string(verifUnhex(a.From)), ToNode: string(verifUnhex(a.To)),
			FromService: string(verifUnhex(a.FSvc)), ToService: string(verifUnhex(a.TSvc)),
			HopsToLive: byte(a.TTL), Data: verifUnhex(a.Data),
		}
		b, err := wireNode.translateDataFromMessage(md)
		if err != nil {
			return map[string]interface{}{"err": err.Error()}
		}
		return map[string]interface{}{"ok": verifHex(b)}
	case "dec":
		s, cancel := verifQuietNode("verif-dec-node", 30)
		defer cancel()
		for _, n := range a.Names {
			s.AddNameHash(string(verifUnhex(n.Name)))
		}
		md, err := s.translateDataToMessage(verifUnhex(a.Bytes))
		if err != nil {
			if strings.Contains(err.Error(), "too short") {
				return map[string]interface{}{"err": "short"}
			}
			return map[string]interface{}{"err": "hash"}
		}
		return map[string]interface{}{"ok": pktJSON(md)}
	case "roundtrip":
		// property predicate on the implementation: decode(encode(m)) on a node that knows both names
		s, cancel := verifQuietNode(string(verifUnhex(a.From)), 30)
		defer cancel()
		md := &MessageData{
			FromNode: string(verifUnhex(a.From)), ToNode: string(verifUnhex(a.To)),
			FromService: string(verifUnhex(a.FSvc)), ToService: string(verifUnhex(a.TSvc)),
			HopsToLive: byte(a.TTL), Data: verifUnhex(a.Data),
		}
		b, err := s.translateDataFromMessage(md)
		if err != nil {
			return map[string]interface{}{"err": err.Error()}
		}
		md2, err := s.translateDataToMessage(b)
		if err != nil {
			return map[string]interface{}{"err": err.Error()}
		}
		return map[string]interface{}{"ok": pktJSON(md2)}
	}
	panic("verif: unknown op " + op)
}

func (v *verifRun) svcName() string {
	n := v.pick([]int{1, 1, 2, 3, 7, 8, 8})
	b := make([]byte, n)
	for i := range b {
		switch v.rng.Intn(4) {
		case 0:
			b[i] = byte(1 + v.rng.Intn(255))
		default:
			b[i] = byte('a' + v.rng.Intn(26))
		}
	}
	return string(b)
}

func (v *verifRun) nodeName() string {
	switch v.rng.Intn(6) {
	case 0:
		return string(v.bytesN(1 + v.rng.Intn(40)))
	case 1:
		return strings.Repeat("n", 1+v.rng.Intn(300))
	default:
		return fmt.Sprintf("node-%d", v.rng.Intn(50))
	}
}

func wireGen(v *verifRun) {
	for i := 0; i < v.n; i++ {
		from, to := v.nodeName(), v.nodeName()
		a := wireArgs{From: verifHex([]byte(from)), To: verifHex([]byte(to)),
			FSvc: verifHex([]byte(v.svcName())), TSvc: verifHex([]byte(v.svcName())),
			TTL: v.pick([]int{0, 1, 2, 29, 30, 31, 127, 128, 254, 255, v.rng.Intn(256)}),
			Data: verifHex(v.bytesN(v.pick([]int{0, 0, 1, 2, 35, 36, 37, 100, 1000, 16384, v.rng.Intn(3000)})))}
		if v.rng.Intn(8) == 0 { // service names outside the guaranteed domain: trailing / interior NUL, empty
			a.FSvc = verifHex([]byte{'a', 0, 'b', 0})
			a.TSvc = verifHex([]byte{})
		}
		if v.rng.Intn(8) == 1 { // inside the domain: a zero byte in the middle or at the start of a name, none at the end
			a.FSvc = verifHex([]byte{'a', 'b', 0, 'c', 'd'})
			a.TSvc = verifHex([]byte{0, 'x'})
		}
		a.HF = wireNode.AddNameHash(from)
		a.HT = wireNode.AddNameHash(to)
		v.do(wireApply, "enc", a)
		v.do(wireApply, "roundtrip", a)
		// decoder on the encoding, on truncations and on corrupted headers
		md := &MessageData{FromNode: from, ToNode: to, FromService: string(verifUnhex(a.FSvc)),
			ToService: string(verifUnhex(a.TSvc)), HopsToLive: byte(a.TTL), Data: verifUnhex(a.Data)}
		b, _ := wireNode.translateDataFromMessage(md)
		names := []wireNameArg{{Name: verifHex([]byte("verif-dec-node")), Hash: wireNode.AddNameHash("verif-dec-node")},
			{Name: a.From, Hash: a.HF}}
		if v.rng.Intn(3) != 0 {
			names = append(names, wireNameArg{Name: a.To, Hash: a.HT})
		}
		c := append([]byte{}, b...)
		switch v.rng.Intn(6) {
		case 0:
			c = c[:v.rng.Intn(len(c)+1)]
		case 1:
			c = c[:v.pick([]int{0, 1, 2, 35, 36})%(len(c)+1)]
		case 2:
			c[v.rng.Intn(36)] ^= byte(1 + v.rng.Intn(255))
		case 3:
			c = v.bytesN(v.rng.Intn(80))
		}
		v.do(wireApply, "dec", wireArgs{Names: names, Bytes: verifHex(c)})
	}
}

func TestVerifWire(t *testing.T) {
	v := verifOpen(t, "wire")
	var cancel context.CancelFunc
	wireNode, cancel = verifQuietNode("verif-wire-node", 30)
	defer cancel()
	v.run(wireApply, wireGen)
}

// ---------------------------------------------------------------- pkt engine

type pktFieldArg struct {
	K   string      `json:"k"`   // key as written in the rule (any case)
	V   string      `json:"v"`   // value (hex): a literal, or /regex/
	AST interface{} `json:"ast"` // for /regex/ values: the AST the pattern was rendered from
}

type pktRuleArg struct {
	Action string        `json:"action"`
	Fields []pktFieldArg `json:"fields"`
}

type pktNodeArg struct {
	ID        string            `json:"id"`
	Routes    map[string]string `json:"routes"` // dest hex -> next hop hex
	Conns     []string          `json:"conns"`
	Listeners []string          `json:"listeners"`
	Rules     []pktRuleArg      `json:"rules"`
	MaxHops   int               `json:"maxhops"`
}

type pktPacketArg struct {
	From   string                 `json:"from"`
	To     string                 `json:"to"`
	FSvc   string                 `json:"fsvc"`
	TSvc   string                 `json:"tsvc"`
	TTL    int                    `json:"ttl"`
	Data   string                 `json:"data,omitempty"`
	Notice map[string]interface{} `json:"notice,omitempty"`
}

type pktArgs struct {
	Nodes []pktNodeArg `json:"nodes"`
	At    string       `json:"at"` // node that handles / originates
	P     pktPacketArg `json:"p"`
}

type pktSimNode struct {
	id        string
	s         *Netceptor
	cancel    context.CancelFunc
	conns     map[string]chan []byte
	listeners map[string]*PacketConn
	pubMu     sync.Mutex
	published []UnreachableNotification
	pubCh     chan interface{}
	sentinel  chan struct{}
}

func pktBuild(na pktNodeArg) *pktSimNode {
	id := string(verifUnhex(na.ID))
	s, cancel := verifQuietNode(id, byte(na.MaxHops))
	n := &pktSimNode{id: id, s: s, cancel: cancel, conns: map[string]chan []byte{}, listeners: map[string]*PacketConn{},
		sentinel: make(chan struct{}, 16)}
	for d, nh := range na.Routes {
		s.routingTable[string(verifUnhex(d))] = string(verifUnhex(nh))
	}
	for _, c := range na.Conns {
		peer := string(verifUnhex(c))
		ch := make(chan []byte, 4096)
		ctx, cf := context.WithCancel(s.context)
		s.connections[peer] = &connInfo{ReadChan: make(chan []byte), WriteChan: ch, Context: ctx, CancelFunc: cf, Cost: 1.0,
			lastReceivedData: time.Now(), lastReceivedLock: &sync.RWMutex{}, logger: s.Logger}
		n.conns[peer] = ch
	}
	for _, l := range na.Listeners {
		svc := string(verifUnhex(l))
		pc, err := s.ListenPacket(svc)
		if err != nil {
			continue
		}
		p := pc.(*PacketConn)
		p.recvChan = make(chan *MessageData, 4096)
		n.listeners[svc] = p
	}
	if len(na.Rules) > 0 {
		var rd []FirewallRuleData
		for _, r := range na.Rules {
			m := FirewallRuleData{"action": r.Action}
			for _, f := range r.Fields {
				m[f.K] = string(verifUnhex(f.V))
			}
			rd = append(rd, m)
		}
		rules, err := ParseFirewallRules(rd)
		if err != nil {
			panic("verif: pkt rules must parse: " + err.Error())
		}
		_ = s.AddFirewallRules(rules, true)
	}
	n.pubCh = s.unreachableBroker.Subscribe()
	go func() {
		for m := range n.pubCh {
			u, ok := m.(UnreachableNotification)
			if !ok {
				continue
			}
			if u.Problem == "__verif_sentinel__" {
				n.sentinel <- struct{}{}
				continue
			}
			n.pubMu.Lock()
			n.published = append(n.published, u)
			n.pubMu.Unlock()
		}
	}()
	return n
}

// flush waits until every publication made so far has reached the subscriber.
func (n *pktSimNode) flush() {
	_ = n.s.unreachableBroker.Publish(UnreachableNotification{UnreachableMessage: UnreachableMessage{Problem: "__verif_sentinel__"}})
	select {
	case <-n.sentinel:
	case <-time.After(5 * time.Second):
	}
}

func pktMD(p pktPacketArg) *MessageData {
	md := &MessageData{FromNode: string(verifUnhex(p.From)), ToNode: string(verifUnhex(p.To)),
		FromService: string(verifUnhex(p.FSvc)), ToService: string(verifUnhex(p.TSvc)), HopsToLive: byte(p.TTL)}
	if p.Notice != nil {
		u := UnreachableMessage{
			FromNode: string(verifUnhex(p.Notice["from"].(string))), ToNode: string(verifUnhex(p.Notice["to"].(string))),
			FromService: string(verifUnhex(p.Notice["fsvc"].(string))), ToService: string(verifUnhex(p.Notice["tsvc"].(string))),
			Problem: p.Notice["problem"].(string),
		}
		md.Data, _ = json.Marshal(u)
	} else {
		md.Data = verifUnhex(p.Data)
	}
	return md
}

func pktRet(err error) string {
	if err == nil {
		return "ok"
	}
	e := err.Error()
	switch {
	case e == ProblemServiceUnknown:
		return "service unknown"
	case strings.Contains(e, "no route"):
		return "no route"
	case strings.Contains(e, "no connection"):
		return "no conn"
	case strings.Contains(e, "service name too long"):
		return "name too long"
	default:
		return "bad notice"
	}
}

type pktObs struct {
	sent      []map[string]interface{}
	delivered []map[string]interface{}
	published []map[string]interface{}
}

func (n *pktSimNode) collect(o *pktObs, queue *[][3]interface{}) {
	peers := make([]string, 0, len(n.conns))
	for p := range n.conns {
		peers = append(peers, p)
	}
	sort.Strings(peers)
	for _, peer := range peers {
		for {
			select {
			case b := <-n.conns[peer]:
				md, err := n.s.translateDataToMessage(b)
				if err != nil {
					o.sent = append(o.sent, map[string]interface{}{"from": verifHex([]byte(n.id)), "via": verifHex([]byte(peer)), "undecodable": verifHex(b)})
					continue
				}
				o.sent = append(o.sent, map[string]interface{}{"from": verifHex([]byte(n.id)), "via": verifHex([]byte(peer)), "p": pktJSON(md)})
				if queue != nil {
					*queue = append(*queue, [3]interface{}{peer, b, n})
				}
				continue
			default:
			}
			break
		}
	}
	svcs := make([]string, 0, len(n.listeners))
	for s := range n.listeners {
		svcs = append(svcs, s)
	}
	sort.Strings(svcs)
	for _, svc := range svcs {
		for {
			select {
			case md := <-n.listeners[svc].recvChan:
				o.delivered = append(o.delivered, map[string]interface{}{"node": verifHex([]byte(n.id)), "svc": verifHex([]byte(svc)), "p": pktJSON(md)})
				continue
			default:
			}
			break
		}
	}
	n.flush()
	n.pubMu.Lock()
	for _, u := range n.published {
		o.published = append(o.published, map[string]interface{}{"node": verifHex([]byte(n.id)), "n": noticeJSON(u.UnreachableMessage),
			"rfrom": verifHex([]byte(u.ReceivedFromNode))})
	}
	n.published = nil
	n.pubMu.Unlock()
}

func (o *pktObs) json(ret string) map[string]interface{} {
	nz := func(l []map[string]interface{}) []map[string]interface{} {
		if l == nil {
			return []map[string]interface{}{}
		}
		return l
	}
	return map[string]interface{}{"ret": ret, "sent_set": nz(o.sent), "delivered_set": nz(o.delivered), "published_set": nz(o.published),
		"nontrivial": len(o.sent)+len(o.delivered)+len(o.published) > 0}
}

func pktApply(op string, raw json.RawMessage) interface{} {
	var a pktArgs
	if err := json.Unmarshal(raw, &a); err != nil {
		panic(err)
	}
	nodes := map[string]*pktSimNode{}
	for _, na := range a.Nodes {
		n := pktBuild(na)
		nodes[n.id] = n
	}
	defer func() {
		for _, n := range nodes {
			n.cancel()
		}
	}()
	at := nodes[string(verifUnhex(a.At))]
	md := pktMD(a.P)
	o := &pktObs{}
	switch op {
	case "handle":
		err := at.s.handleMessageData(md)
		at.collect(o, nil)
		return o.json(pktRet(err))
	case "walk":
		// originate like a socket WriteTo, then pump every transmission to its receiver (FIFO)
		err := at.s.SendMessageWithHopsToLive(md.FromService, md.ToNode, md.ToService, md.Data, md.HopsToLive)
		var queue [][3]interface{}
		at.collect(o, &queue)
		steps := 0
		for len(queue) > 0 && steps < 3000 {
			steps++
			item := queue[0]
			queue = queue[1:]
			peer := item[0].(string)
			rx, ok := nodes[peer]
			if !ok {
				continue // a connection to a node outside the scenario: the transmission is only recorded
			}
			m, derr := rx.s.translateDataToMessage(item[1].([]byte))
			if derr != nil {
				// the receiver has never heard of one of the names: register as a real node would have
				// learned them from routing updates, then decode again
				sender := item[2].(*pktSimNode)
				m0, _ := sender.s.translateDataToMessage(item[1].([]byte))
				rx.s.AddNameHash(m0.FromNode)
				rx.s.AddNameHash(m0.ToNode)
				m, derr = rx.s.translateDataToMessage(item[1].([]byte))
				if derr != nil {
					continue
				}
			}
			_ = rx.s.handleMessageData(m)
			rx.collect(o, &queue)
		}
		res := o.json(pktRet(err))
		res["steps_exhausted"] = len(queue) > 0
		return res
	}
	panic("verif: unknown op " + op)
}

var pktSvcs = []string{"a", "svc1", "eightchr", "ping", "unreach", "x\x01y"}

func (v *verifRun) pktScenario(k int, loops bool) ([]pktNodeArg, []string) {
	ids := make([]string, k)
	for i := range ids {
		ids[i] = fmt.Sprintf("n%d", i)
	}
	nodes := make([]pktNodeArg, k)
	for i := range nodes {
		na := pktNodeArg{ID: verifHex([]byte(ids[i])), Routes: map[string]string{}, Conns: []string{}, Listeners: []string{}, Rules: []pktRuleArg{},
			MaxHops: v.pick([]int{30, 30, 5, 2, 255})}
		// line topology n0 - n1 - … - n(k-1) with tables along the line; optionally adversarial tables
		for j := range ids {
			if j == i {
				continue
			}
			var nh int
			if j > i {
				nh = i + 1
			} else {
				nh = i - 1
			}
			if loops && v.rng.Intn(3) == 0 {
				nh = v.rng.Intn(k) // arbitrary (possibly looping or self) next hop
			}
			if v.rng.Intn(12) != 0 {
				na.Routes[verifHex([]byte(ids[j]))] = verifHex([]byte(ids[nh]))
			}
		}
		for j := range ids {
			if j != i && ((j == i+1 || j == i-1) || loops) && v.rng.Intn(10) != 0 {
				na.Conns = append(na.Conns, verifHex([]byte(ids[j])))
			}
		}
		for _, s := range pktSvcs[:3] {
			if v.rng.Intn(2) == 0 {
				na.Listeners = append(na.Listeners, verifHex([]byte(s)))
			}
		}
		if v.rng.Intn(3) == 0 {
			na.Listeners = append(na.Listeners, verifHex([]byte(pktSvcs[5])))
		}
		nodes[i] = na
	}
	return nodes, ids
}

func (v *verifRun) pktRules(ids []string) []pktRuleArg {
	var rules []pktRuleArg
	for r := v.rng.Intn(4); r > 0; r-- {
		ru := pktRuleArg{Action: []string{"accept", "reject", "drop", "Drop", "REJECT"}[v.rng.Intn(5)], Fields: []pktFieldArg{}}
		keys := [][]string{{"fromnode", "FromNode"}, {"tonode", "ToNode"}, {"fromservice", "FROMSERVICE"}, {"toservice", "ToService"}}
		for fi, ks := range keys {
			if v.rng.Intn(3) != 0 {
				continue
			}
			var val string
			if fi < 2 {
				val = ids[v.rng.Intn(len(ids))]
			} else {
				val = pktSvcs[v.rng.Intn(len(pktSvcs))]
			}
			if v.rng.Intn(3) == 0 {
				// a regular expression that matches val, or something near it
				ast := v.reNear(val)
				ru.Fields = append(ru.Fields, pktFieldArg{K: ks[v.rng.Intn(2)], V: verifHex([]byte("/" + reRender(ast, true) + "/")), AST: reJSON(ast)})
			} else {
				ru.Fields = append(ru.Fields, pktFieldArg{K: ks[v.rng.Intn(2)], V: verifHex([]byte(val))})
			}
		}
		rules = append(rules, ru)
	}
	return rules
}

func pktGen(v *verifRun) {
	for i := 0; i < v.n; i++ {
		k := 2 + v.rng.Intn(4)
		loops := v.rng.Intn(3) == 0
		nodes, ids := v.pktScenario(k, loops)
		if v.rng.Intn(3) == 0 {
			for j := range nodes {
				if v.rng.Intn(2) == 0 {
					nodes[j].Rules = v.pktRules(ids)
				}
			}
		}
		at := v.rng.Intn(k)
		fsvcPool := []string{"a", "svc1", "eightchr", "ping", "ab\x00cd", "\x00lead"}
		p := pktPacketArg{From: verifHex([]byte(ids[v.rng.Intn(k)])), To: verifHex([]byte(ids[v.rng.Intn(k)])),
			FSvc: verifHex([]byte(fsvcPool[v.rng.Intn(len(fsvcPool))])), TSvc: verifHex([]byte(pktSvcs[v.rng.Intn(len(pktSvcs))])),
			TTL: v.pick([]int{0, 0, 1, 1, 2, 3, 4, 5, 30, 255}), Data: verifHex(v.bytesN(v.rng.Intn(20)))}
		if string(verifUnhex(p.FSvc)) == "ping" && string(verifUnhex(p.TSvc)) == "ping" {
			p.FSvc = verifHex([]byte("a")) // ping→ping recursion is exercised (in a child process) by the C07 check
		}
		switch v.rng.Intn(8) {
		case 0: // a well-formed notice packet
			p.FSvc, p.TSvc = verifHex([]byte("unreach")), verifHex([]byte("unreach"))
			p.Data = ""
			p.Notice = map[string]interface{}{"from": p.To, "to": verifHex([]byte(ids[v.rng.Intn(k)])), "fsvc": verifHex([]byte("a")),
				"tsvc": verifHex([]byte("svc1")), "problem": []string{ProblemServiceUnknown, ProblemExpiredInTransit, ProblemRejected}[v.rng.Intn(3)]}
		case 1: // a malformed notice body
			p.FSvc, p.TSvc = verifHex([]byte("unreach")), verifHex([]byte("unreach"))
			p.Data = verifHex([]byte{0xff, '{'})
		}
		a := pktArgs{Nodes: nodes, At: verifHex([]byte(ids[at])), P: p}
		v.do(pktApply, "handle", a)
		// walk: the packet originates at `at` (its source is that node by construction)
		p2 := p
		p2.From = a.At
		if p2.Notice != nil {
			continue
		}
		if string(verifUnhex(p2.FSvc)) == "unreach" || string(verifUnhex(p2.FSvc)) == "ping" {
			p2.FSvc = verifHex([]byte("a"))
		}
		v.do(pktApply, "walk", pktArgs{Nodes: nodes, At: a.At, P: p2})
	}
	// targeted: one rule whose only field is a regular expression built around the packet's own value of that field
	for i := 0; i < v.n/6; i++ {
		k := 2 + v.rng.Intn(3)
		nodes, ids := v.pktScenario(k, false)
		at := v.rng.Intn(k)
		from, to := ids[v.rng.Intn(k)], ids[v.rng.Intn(k)]
		fsvc, tsvc := pktSvcs[v.rng.Intn(3)], pktSvcs[v.rng.Intn(3)]
		keys := []string{"fromnode", "tonode", "fromservice", "toservice"}
		vals := []string{from, to, fsvc, tsvc}
		fi := v.rng.Intn(4)
		ast := v.reNear(vals[fi])
		nodes[at].Rules = []pktRuleArg{{Action: []string{"reject", "drop"}[v.rng.Intn(2)],
			Fields: []pktFieldArg{{K: keys[fi], V: verifHex([]byte("/" + reRender(ast, true) + "/")), AST: reJSON(ast)}}}}
		p := pktPacketArg{From: verifHex([]byte(from)), To: verifHex([]byte(to)), FSvc: verifHex([]byte(fsvc)), TSvc: verifHex([]byte(tsvc)),
			TTL: 5, Data: verifHex(v.bytesN(4))}
		v.do(pktApply, "handle", pktArgs{Nodes: nodes, At: verifHex([]byte(ids[at])), P: p})
	}
}

func TestVerifPkt(t *testing.T) {
	v := verifOpen(t, "pkt")
	v.run(pktApply, pktGen)
}
