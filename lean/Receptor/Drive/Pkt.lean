import Receptor.Drive.Util
import Receptor.Model.Forward
import Receptor.Model.Firewall
import Receptor.Drive.Fw
import Receptor.Generated.Facts
namespace Receptor.Drive.Pkt
open Lean Receptor.Drive Receptor.Forward

def hopsOfFacts : HopRule :=
  { expireAt := if Receptor.Facts.fwd_expire_test = "HopsToLive <= 0" then 0 else 999999,
    decrement := Receptor.Facts.fwd_decrement,
    noticeGuard := Receptor.Facts.fwd_notice_guard,
    pingGuard := Receptor.Facts.proto_ping_guard }

def problemStr : Problem → String
  | .serviceUnknown => "service unknown" | .expired => "message expired" | .rejected => "blocked by firewall"

def problemOf : String → Option Problem
  | "service unknown" => some .serviceUnknown | "message expired" => some .expired
  | "blocked by firewall" => some .rejected | _ => none

def noticeJson (n : NoticeBody) : Json :=
  jObj [("from", jHex n.fromNode), ("to", jHex n.toNode), ("fsvc", jHex n.fromSvc), ("tsvc", jHex n.toSvc),
        ("problem", Json.str (problemStr n.problem))]

def pktJson (p : Packet) : Json :=
  let base := [("from", jHex p.fromNode), ("to", jHex p.toNode), ("fsvc", jHex p.fromSvc), ("tsvc", jHex p.toSvc),
               ("ttl", jNat p.ttl)]
  match p.body with
  | .raw b => jObj (base ++ [("data", jHex b)])
  | .notice n => jObj (base ++ [("notice", noticeJson n)])

def getPkt (j : Json) : Except String Packet := do
  let body ← match optField j "notice" with
    | some n => do
      let pr ← getStr n "problem"
      match problemOf pr with
      | some p => pure (Body.notice { fromNode := ← getHex n "from", toNode := ← getHex n "to",
                                       fromSvc := ← getHex n "fsvc", toSvc := ← getHex n "tsvc", problem := p })
      | none => throw "unknown problem"
    | none => match optField j "data" with
      | some _ => do pure (Body.raw (← getHex j "data"))
      | none => pure (Body.raw [])
  pure { fromNode := ← getHex j "from", toNode := ← getHex j "to", fromSvc := ← getHex j "fsvc",
         toSvc := ← getHex j "tsvc", ttl := ← getNat j "ttl", body := body }

structure NodeSpec where
  id : Node
  cfg : NodeCfg

def lookup (l : List (Bytes × Bytes)) (k : Bytes) : Option Bytes := (l.find? fun x => x.1 == k).map (·.2)

open Receptor.Firewall in
def getRules (strict : Bool) (j : Json) : Except String (List Rule) := do
  let rs ← getArr j "rules"
  let kvss ← rs.mapM fun r => do
    let act ← getStr r "action"
    let fields ← getArr r "fields"
    let kvs ← fields.mapM fun f => do
      let k ← getStr f "k"
      let v ← getHex f "v"
      let ast ← Receptor.Drive.Fw.getAst f
      pure ({ key := k.toUTF8.toList.map (·.toNat), val := .str v, compiled := ast } : KV)
    pure (({ key := kAction, val := .str (act.toUTF8.toList.map (·.toNat)) } : KV) :: kvs)
  match parseRules strict kvss with
  | some rules => pure rules
  | none => throw "pkt rules must parse"

open Receptor.Firewall in
def fwOf (w : Wrap) (rules : List Rule) : Node → Svc → Node → Svc → FwResult := fun fn fs tn ts =>
  match evalRules w rules { fromNode := fn, fromSvc := fs, toNode := tn, toSvc := ts } with
  | .accept => .accept | .reject => .reject | .drop => .drop

/-- `spec = true`: the specification's reading of the rules (strict parse, full match);
otherwise what the regenerated facts say the source does. -/
def getNode (spec : Bool) (j : Json) : Except String NodeSpec := do
  let id ← getHex j "id"
  let routesObj ← (← j.getObjVal? "routes").getObj?
  let routes ← routesObj.toList.mapM fun (k, v) => do
    match fromHex k, fromHex (← v.getStr?) with
    | some a, some b => pure (a, b)
    | _, _ => throw "bad hex in routes"
  let conns ← getHexList j "conns"
  let listeners ← getHexList j "listeners"
  let strict := spec || Receptor.Drive.Fw.strictFact
  let w := if spec then Receptor.Firewall.Wrap.grouped else (Receptor.Drive.Fw.wrapFact.getD .grouped)
  let rules ← getRules strict j
  let maxHops ← getNat j "maxhops"
  pure { id := id,
         cfg := { route := lookup routes, conn := fun n => conns.contains n,
                  listener := fun s => listeners.contains s && s != pingSvc && s != unreachSvc,
                  fw := fwOf w rules, maxHops := maxHops } }

def errStr : Err → String
  | .serviceUnknown => "service unknown" | .noRoute => "no route" | .noConn => "no conn" | .badNotice => "bad notice"

structure Obs where
  sent : List Json := []
  delivered : List Json := []
  published : List Json := []

def Obs.json (o : Obs) (ret : String) (extra : List (String × Json) := []) : Json :=
  jObj ([("ret", Json.str ret), ("sent_set", jArr o.sent), ("delivered_set", jArr o.delivered),
         ("published_set", jArr o.published),
         ("nontrivial", Json.bool (o.sent.length + o.delivered.length + o.published.length > 0))] ++ extra)

/-- the TTL a packet carries on the wire after the node relayed it -/
def relayed (H : HopRule) (p : Packet) : Packet := { p with ttl := nextTtl H p.ttl }

/-- One top-level `handleMessageData` call at `me`: events, packets put on the wire
(receiver, packet as transmitted), and the error the call returns. -/
def runAt (H : HopRule) (me : Node) (cfg : NodeCfg) (p : Packet) : Obs × List (Node × Packet) × String :=
  let evs := observe H me cfg 6 p
  let step := fun (acc : Obs × List (Node × Packet) × String) (e : Packet × Outcome) =>
    let (o, tx, ret) := acc
    let (q, out) := e
    match out with
    | .forward nh =>
      let q' := relayed H q
      ({ o with sent := o.sent ++ [jObj [("from", jHex me), ("via", jHex nh), ("p", pktJson q')]] }, tx ++ [(nh, q')], ret)
    | .delivered =>
      ({ o with delivered := o.delivered ++ [jObj [("node", jHex me), ("svc", jHex q.toSvc), ("p", pktJson q)]] }, tx, ret)
    | .published n =>
      ({ o with published := o.published ++ [jObj [("node", jHex me), ("n", noticeJson n), ("rfrom", jHex q.fromNode)]] }, tx, ret)
    | _ => acc
  let (o, tx, _) := evs.foldl step ({}, [], "ok")
  -- the error returned: that of the top-level packet, except that a ping returns its reply's error
  let ret :=
    match evs with
    | [] => "ok"
    | (_, .err e) :: _ => errStr e
    | (q0, .spawn _) :: rest =>
      if q0.toSvc == pingSvc && q0.toNode == me then
        (match rest with
         | (_, .err e) :: _ => errStr e
         | _ => "ok")
      else "ok"
    | _ => "ok"
  (o, tx, ret)

def mergeObs (a b : Obs) : Obs :=
  { sent := a.sent ++ b.sent, delivered := a.delivered ++ b.delivered, published := a.published ++ b.published }

/-- pump every transmission to its receiver, FIFO, for at most `fuel` steps -/
def pump (H : HopRule) (nodes : List NodeSpec) : Nat → List (Node × Packet) → Obs → Obs × Bool
  | 0, q, o => (o, !q.isEmpty)
  | _ + 1, [], o => (o, false)
  | fuel + 1, (rx, p) :: rest, o =>
    match nodes.find? fun n => n.id == rx with
    | none => pump H nodes fuel rest o
    | some n =>
      let (o2, tx, _) := runAt H n.id n.cfg p
      pump H nodes fuel (rest ++ tx) (mergeObs o o2)

def isData (src : Node) (p0 : Packet) (j : Json) : Bool :=
  -- a transmission / delivery of the original datagram (same source address and payload, not a notice)
  (do
    let p ← j.getObjVal? "p"
    let q ← getPkt p
    pure (q.fromNode == src && q.fromSvc == p0.fromSvc && q.toNode == p0.toNode && q.toSvc == p0.toSvc
          && q.body == p0.body)).toOption.getD false

def hasRules (a : Json) : Bool :=
  ((getArr a "nodes").toOption.getD []).any fun n => !((getArr n "rules").toOption.getD []).isEmpty

def handle (op : String) (a r : Json) : Except String Reply := do
  let nodes ← (← getArr a "nodes").mapM (getNode false)
  let specNodes ← (← getArr a "nodes").mapM (getNode true)
  let atN ← getHex a "at"
  let p ← getPkt (← a.getObjVal? "p")
  let H := hopsOfFacts
  match nodes.find? fun n => n.id == atN with
  | none => throw "unknown node"
  | some me =>
    match op with
    | "handle" =>
      if (observe H me.id me.cfg 6 p).any (fun e => e.2 == .diverges) then
        pure { m := jObj [("unmodelled", Json.str "diverges")] }
      else
        let (o, _, ret) := runAt H me.id me.cfg p
        -- oracle: the observation must be what the specification model (standard hop rule, strict
        -- rule parsing, full-match regex; the model the property theorems are about) prescribes
        match specNodes.find? fun n => n.id == atN with
        | none => pure { m := o.json ret }
        | some sme =>
          let (so, _, sret) := runAt stdHops sme.id sme.cfg p
          let holds := canonEq r (so.json sret)
          pure { m := o.json ret, prop := some holds,
                 why := if holds then "" else "one handleMessageData call does not do what the specification prescribes for this packet "
                          ++ "(expected " ++ (so.json sret).compress ++ ")",
                 sig := if holds then "" else (if hasRules a then "pkt/handle/differs-from-spec/with-firewall-rules"
                                              else "pkt/handle/differs-from-spec") }
    | "walk" =>
      let (o, tx, ret) := runAt H me.id me.cfg p
      let (o2, exhausted) := pump H nodes 3000 tx o
      let m := o2.json ret [("steps_exhausted", Json.bool exhausted)]
      -- property predicates on the implementation's observation r
      let sent := (getArr r "sent_set").toOption.getD []
      let deliv := (getArr r "delivered_set").toOption.getD []
      let dataRelays := (sent.filter (isData me.id p)).length
      let dataDeliv := deliv.filter (isData me.id p)
      let okBound := dataRelays ≤ p.ttl
      let okOnce := dataDeliv.length ≤ 1
      let okAddr := dataDeliv.all fun d =>
        (do pure ((← getHex d "node") == p.toNode && (← getHex d "svc") == p.toSvc)).toOption.getD false
      -- and the whole network history must be the specification's
      let okSpec := match specNodes.find? fun n => n.id == atN with
        | none => true
        | some sme =>
          let (so, stx, sret) := runAt stdHops sme.id sme.cfg p
          let (so2, sexh) := pump stdHops specNodes 3000 stx so
          canonEq r (so2.json sret [("steps_exhausted", Json.bool sexh)])
      let holds := okBound && okOnce && okAddr && okSpec
      pure { m := m, prop := some holds,
             why := if !okBound then s!"datagram relayed {dataRelays} times with hop budget {p.ttl}"
                    else if !okOnce then "datagram delivered more than once"
                    else if !okAddr then "datagram delivered at a listener other than the addressee"
                    else if !okSpec then "the network history of this send differs from the specification's (reach iff d <= h, expiry reporter, notices)" else "",
             sig := if !okBound then "C10/relayed-more-than-budget" else if !okOnce then "C02/delivered-twice"
                    else if !okAddr then "C02/misdelivered"
                    else if !okSpec then (if hasRules a then "pkt/walk/differs-from-spec/with-firewall-rules" else "pkt/walk/differs-from-spec") else "" }
    | _ => throw s!"bad-op pkt {op}"

end Receptor.Drive.Pkt
