import Receptor.Drive.Util
import Receptor.Model.Wire
import Receptor.Model.Framer
import Receptor.Generated.Facts
namespace Receptor.Drive.Wire
open Lean Receptor.Drive Receptor.Wire

def layoutFacts : Layout :=
  layoutOfFacts Receptor.Facts.wire_min_len Receptor.Facts.wire_from_off Receptor.Facts.wire_to_off
    Receptor.Facts.wire_fsvc_off Receptor.Facts.wire_tsvc_off Receptor.Facts.wire_data_off
    Receptor.Facts.wire_ttl_idx Receptor.Facts.wire_svc_len

def msgJson (m : Msg) : Json :=
  jObj [("from", jHex m.fromNode), ("to", jHex m.toNode), ("fsvc", jHex m.fromSvc), ("tsvc", jHex m.toSvc),
        ("ttl", jNat m.ttl), ("data", jHex m.data)]

def getMsg (a : Json) : Except String Msg := do
  pure { fromNode := ← getHex a "from", toNode := ← getHex a "to", fromSvc := ← getHex a "fsvc",
         toSvc := ← getHex a "tsvc", ttl := ← getNat a "ttl", data := ← getHex a "data" }

def handle (op : String) (a r : Json) : Except String Reply := do
  match op with
  | "enc" =>
    let m ← getMsg a
    let hf ← getNat a "hf"
    let ht ← getNat a "ht"
    let h : Bytes → Nat := fun n => if n = m.fromNode then hf else ht
    pure { m := jObj [("ok", jHex (encode h m))] }
  | "roundtrip" =>
    let m ← getMsg a
    if decide (svcOK m.fromSvc) && decide (svcOK m.toSvc) && m.ttl < 256 then
      let expect := jObj [("ok", msgJson m)]
      let holds := r == expect
      pure { m := expect, prop := some holds,
             why := if holds then "" else "decode(encode(packet)) is not the packet",
             sig := if holds then "" else "C02/wire-roundtrip" }
    else pure { m := jObj [("unmodelled", Json.str "service name outside the guaranteed domain")] }
  | "dec" =>
    let names ← getArr a "names"
    let tblList ← names.mapM fun n => do pure ((← getNat n "hash"), (← getHex n "name"))
    let tbl : Nat → Option Bytes := fun h => (tblList.find? fun x => x.1 == h).map (·.2)
    let bytes ← getHex a "bytes"
    -- decode_total: whatever the bytes, the decoder answers (packet or error); it never panics
    let noPanic := (optField r "panic").isNone
    let rep (m : Json) : Reply :=
      { m := m, prop := some noPanic, why := if noPanic then "" else "translateDataToMessage panicked on these bytes",
        sig := if noPanic then "" else "C02/decode-panics" }
    match decode layoutFacts tbl bytes with
    | .ok m => pure (rep (jObj [("ok", msgJson m)]))
    | .error .short => pure (rep (jObj [("err", Json.str "short")]))
    | .error .hash => pure (rep (jObj [("err", Json.str "hash")]))
  | _ => throw s!"bad-op wire {op}"

end Receptor.Drive.Wire

namespace Receptor.Drive.Framer
open Lean Receptor.Drive Receptor.Framer

def getOps (a : Json) : Except String (List Op) := do
  (← getArr a "ops").mapM fun o =>
    match optField o "recv" with
    | some (Json.str s) => match fromHex s with
      | some b => pure (Op.recv b)
      | none => throw "bad hex"
    | _ => pure Op.get

/-- like `runOps` but also counting the not-ready reads -/
def runCount : Bytes → List Op → List Bytes × Nat × Bytes
  | buf, [] => ([], 0, buf)
  | buf, .recv c :: ops => runCount (buf ++ c) ops
  | buf, .get :: ops =>
    match getMessage buf with
    | none => let r := runCount buf ops; (r.1, r.2.1 + 1, r.2.2)
    | some (m, buf') => let r := runCount buf' ops; (m :: r.1, r.2.1, r.2.2)

def handle (op : String) (a r : Json) : Except String Reply := do
  match op with
  | "frame" => pure { m := jObj [("ok", jHex (frame (← getHex a "data")))] }
  | "ops" =>
    let ops ← getOps a
    let (got, nr, buf) := runCount [] ops
    let tail := (drain buf).1
    let m := jObj [("ok", jObj [("got", jArr (got.map jHex)), ("not_ready", jNat nr), ("tail", jArr (tail.map jHex))])]
    -- property predicate on the implementation's observation
    match optField a "msgs" with
    | some (Json.arr ms) =>
      let msgs ← ms.toList.mapM fun x => do
        match fromHex (← x.getStr?) with
        | some b => pure b
        | none => throw "bad hex"
      if msgs.all (fun x => x.length < 65536) then
        let ok := (do
          let o ← r.getObjVal? "ok"
          let g ← getStrList o "got"
          let t ← getStrList o "tail"
          pure (g ++ t == msgs.map toHex)).toOption.getD false
        pure { m := m, prop := some ok, why := if ok then "" else "messages out differ from messages in",
               sig := if ok then "" else "C02/framer-any-chunking" }
      else pure { m := m }
    | _ => pure { m := m }
  | _ => throw s!"bad-op framer {op}"

end Receptor.Drive.Framer
