"""Free-text parts of MANIFEST.json per claimed property."""
HOOK_COMMITS = []
NOT_APPLICABLE = {}
BASE_NOTE = ("Trusted: Lean 4.33 kernel (axioms at most propext, Classical.choice, Quot.sound; audited per theorem on every run), "
             "the go/ast fact extractor and its expectations, the seeded correspondence harness (coverage reported in evidence). ")
TEXT = {
    "C03": dict(
        text="Theorems bridge_copies_exactly (for every chunking of the reads, including a last read that returns bytes together with "
             "end-of-stream, the relay writes exactly the bytes read, in order, and closes the destination iff the source ended), "
             "bridge_prefix_while_open, witness of the variant that loses the final chunk, over a model of bridgeHalf; accept_exact and "
             "stream_end_to_end (whatever the dialler wrote - nothing included - and however the stream chunks 0::d, the listener accepts "
             "it and reads with buffers of any sizes return consecutive slices of d, the end only after all of d), relay_chain_exact (any "
             "number of relays in a row), accepted_then_relayed, witness of the repaired empty-dial refusal, over a model of the two ends "
             "of a stream (DialContext's zero byte, acceptLoop's one-byte read) on an assumed QUIC read contract. Tie: regenerated "
             "facts (relay loop order, BridgeConns, the initial byte of a stream and its acceptance with end-of-stream, Conn.Close is a "
             "half-close, ReadFrom copies the payload, the dial-cancel test of unreachable notices) + transfers on real meshes of 2..5 "
             "nodes over in-memory links that lose (up to 8 %), duplicate, delay and reorder datagrams, with a cut of the active path "
             "while a dearer one exists: both sides write their own sequence (0..200 kB, write sizes 1..70 kB), close their writing "
             "side and read to end-of-stream; directly and behind utils.BridgeConns + a Unix socket pair (one-way and duplex); plus "
             "the unreach engine (a notice cancels only the connection to exactly that remote service).",
        note=BASE_NOTE + "Reliable ordered delivery is quic-go's (trusted, exercised); two defects repaired (empty dial refused; a reroute aborting the connection), one "
             "recorded (BridgeConns closes its destination completely: duplex transfers behind bridges are cut)."),
    "C04": dict(
        text="Theorems survives_crash_outside_rewrite_partial (every crash point after creation except between the truncation and the "
             "write of a rewrite: the restarted node lists the unit with its work type), survives_every_crash_if_atomic, finished_survives, "
             "never_started_is_failed, remote_binding_survives, binding_survives_crash_after_ack_partial / binding_on_disk_during_stdin (once the "
             "executing node's answer is on disk, every crash point outside a rewrite window — every instant of the stdin transfer in particular — "
             "comes back with work type and binding), known_at_every_moment (a unit with a readable record is found at every "
             "moment of the re-registration of work types at start-up), and C04_witness_type_lost_in_window (the recorded finding) over a model of "
             "the unit's files as sequences of file-system steps cut at any point, and of scanForUnit/Restart. Tie: regenerated facts "
             "(in-place rewrite, scanForUnit's steps, Restart of command and remote units, order of the remote binding writes) + a remote "
             "unit finished and mirrored over a real two-node mesh, then the submitting node restarted with the link down (state, size, "
             "binding and the complete output must survive) + a remote unit started against a scripted control-service connection, the record "
             "on disk at every write of the stdin transfer restarted on (ackcrash) + real "
             "daemon processes on a data directory with real detached runners, killed with SIGKILL at armed crash points inside unit "
             "creation and status rewrites (daemon and runner), or from outside, restarted (repeatedly) and queried through the work "
             "commands: listed, work type, remote node, state/size, results fetched, no query blocks.",
        note=BASE_NOTE + "A crash is a SIGKILL (page-cache contents survive); three findings are recorded, not repaired (record "
             "truncated by a crash inside a rewrite; dead runner leaves a unit running; failed-at-restart revived by a live runner)."),
    "C17": dict(
        text="Theorems no_crash (any sequence of listen / close any number of times / send / read / wake / subscribe / unsubscribe / "
             "dial / end-of-connection never panics), no_leak (every bound service name belongs to an open socket, by an inductive "
             "invariant, for every guard setting), all_closed_nothing_bound, conn_end_releases_socket, and witness theorems of the three "
             "repaired defects, over a model of the socket bookkeeping; listener_close_never_wedges (the two closes of Listener.Close and "
             "the two locks they take, under every schedule of the caller and the transport's read loop; witness of the dead-locking "
             "order). Tie: regenerated facts (what a deliverer does on cancellation, the order of the two closes, "
             "ReadFrom's selects, the checked advertisement withdrawal, Close's steps, the dial clean-up goroutine) + scripts run on a "
             "real node in child processes: parked deliverers, closes repeated and interleaved, subscriptions and notices, dials to a "
             "local listener ended in three ways, a second stream listener closed by the application with and without a live connection, "
             "pings, Shutdown; observed: survival, names still bound, ephemeral names, goroutines "
             "left over (by creating function), background activity after Shutdown.",
        note=BASE_NOTE + "Goroutine counts are measured (settling time up to 2 s), not proved; quic-go is trusted (a lock-order "
             "inversion inside the vendored fork when a listener is closed while its transport fails is avoided by the harness and "
             "described in DESIGN A.4)."),
    "C13": dict(
        text="Theorems stage_monotone, succeeded_sticks, size_monotone_while_running, cancel_write_after_exit over a step model of a "
             "command unit's record rewritten by daemon and runner (any scheduler), by an inductive invariant; "
             "C13_witness_succeeded_overwritten (the repaired defect); ids_distinct (any candidate streams, any number of submissions), "
             "released_is_unknown, unforced_release_all_or_nothing. Tie: regenerated facts (Cancel's steps and guarded final write, the "
             "runner's writes, Start's order, AllocateUnit under the index write lock, the Release loop) + runs of real command units "
             "with the real detached runner process driven through the real `work` commands by concurrent clients: every status "
             "rewrite of daemon and runner is logged (instrumented copy of workunitbase.go injected by overlay), `work status` is polled "
             "every 5 ms; scenarios: success, failure, cancel while running, a cancel placed between the command's exit and the final "
             "write (runner held at the status lock), in-process units, bursts of concurrent submissions, a unit directory that cannot "
             "be removed; operations on finished / cancelled / released units.",
        note=BASE_NOTE + "Remote and Kubernetes units are not exercised; each rewrite is taken as atomic (C14)."),
    "C05": dict(
        text="Theorems sent_is_exact_slice (what has been sent is exactly output[start..pos], for every interleaving of the unit's "
             "writes, status rewrites and the reader's reads/checks and every start offset), never_ends_early, ends_once_finished "
             "(fair reader), cancelled_never_ends (the repaired defect, as a theorem about the old completion test); for remote units "
             "mirror_prefix and mirror_completes (local copy is a prefix of the remote output across arbitrarily cut requests, and "
             "level with it after an uncut one), body_via_same_reader_exact / body_via_conn_loses (the body of a results reply is copied "
             "from the buffered reader that read the reply line: exact however much arrived with the line). Tie: regenerated facts (completion test, IsComplete, per-read buffer, seek/read/"
             "send step, remote offset measured inside the loop, append) + differential runs of the real `work results` ControlFunc/"
             "GetResults against a scripted producer (chunk sizes around the 64 KiB buffer, start offsets 0..size and beyond, asked "
             "before/while/after the unit runs, slow and fast consumers, final states succeeded/failed/cancelled), every received byte "
             "checked against its position; and a mirror engine: two real nodes, a remote unit whose output the harness produces on "
             "the executing node, the link between the nodes cut and restored while status and output are mirrored — the local copy is "
             "watched for being a prefix of the remote output at every moment and equal to it in the end.",
        note=BASE_NOTE + "Polling intervals are real time: 'ends' is observed within 4 s; relay-node and control-service restarts "
             "during mirroring are not exercised."),
    "C08": dict(
        text="Theorems line_no_crash, session_no_crash, invalid_gets_error, garbage_then_valid, sessions_isolated, reader_lines over "
             "a model of RunControlSession (byte-wise reader, JSON/plain dispatch, command table) and of InitFromString/InitFromJSON of "
             "every built-in command and of work + each subcommand, for every line, every JSON decoding and every unit-index state; "
             "no_wait_cycle / no_control_command_deadlock: the lock requests the source can make while holding a lock (regenerated "
             "with go/types, interprocedural, callbacks and deferred calls included) all go upwards in one order, hence no deadlock "
             "among them for any number of threads. Tie: regenerated facts (no lock left held on a return path in pkg/controlsvc and pkg/workceptor, guards, reader loop, dispatch, command table, all parser "
             "messages, lock-request edges with their sites, the accept loop starting one goroutine per connection and nothing else) + "
             "the control service on a TLS TCP listener with clients that never start the handshake (new clients must be greeted at "
             "once) + differential runs of the real Server + Workceptor over a Unix socket in "
             "child processes: structured and malformed lines for every command with fields present/absent and of every JSON type, "
             "unit IDs in memory / on disk only / unknown / with path characters, chunked writes, unterminated lines, 70 kB lines, "
             "several concurrent sessions (releasing, listing, reloading), a probe session after every case.",
        note=BASE_NOTE + "encoding/json is an oracle; 'timely' is measured (6 s / 4 s), not proved; three defects found and repaired "
             "(status type assertion, findUnit self-deadlock, concurrent reload)."),
    "C14": dict(
        text="Theorems mutual_exclusion, no_lost_update, every_write_is_in_the_log, finished_all_applied, no_torn_read, "
             "writer_never_reads_empty over a micro-step model of Save / Load / UpdateFullStatus (acquire, read+apply, truncate, "
             "write, release) for any number of threads, any programs and every schedule, by an inductive invariant. Tie: regenerated "
             "facts (order lock < open < ... < close < unlock in every primitive, exclusive lock flags, UpdateBasicStatus and "
             "saveStdoutSize are nothing but UpdateFullStatus, BaseWorkUnit wrappers) + differential runs of the real primitives by "
             "goroutines (own StatusFileData or sharing one BaseWorkUnit) and re-executed OS processes on one status file, in rounds "
             "with a parked lock holder forcing contention; every update tags the record, so the stored record shows the serial order, "
             "which the model replays; loads by concurrent reader goroutines/processes are checked against the prefix states; a look-up of "
             "a unit whose lock file another process has open must leave that very file in place (the lock is the file).",
        note=BASE_NOTE + "The file lock itself (flock through lockedfile) is trusted and exercised, not proved; OS interleavings are sampled."),
    "C15": dict(
        text="Theorems effect_requires_token, refused_has_no_effect, unexpected_token_refused, unix_socket_exempt, "
             "info_commands_never_effect over the decision model of processSignature and the dispatch order of ControlFunc; over histories "
             "(any command sequence from any state): unauthorised_history_changes_nothing, every_effect_is_authorised over the unit state "
             "machine WorkNode. Tie: "
             "regenerated facts (gate conditions, ShouldVerifySignature, Unix test, per-arm order gate-before-effect, VerifySignature "
             "steps) + differential runs of the real InitFromJSON/ControlFunc on a real Workceptor over the product command x connection "
             "kind x work type x 13 token classes minted by the harness (effects observed: units created/started/cancelled/removed, "
             "output read).",
        note=BASE_NOTE + "JWT/RSA verification is an oracle (ground truth by construction of the tokens)."),
    "C19": dict(
        text="Theorems redacted_has_no_secret_key, non_secret_unchanged, secret_any_case, redact_idem, refused_before_store / "
             "stored_otherwise over the model of remoteUnit.Status and AllocateRemoteUnit; over histories (any sequence of submit, status, "
             "list, cancel, release, results and restarts, from any state): never_disclosed, reported_is_redacted_submission, "
             "secrets_only_with_tls over the unit state machine WorkNode. Tie: regenerated facts (redaction test, same "
             "test and its position before AllocateUnit, responses built from Status(), callers of UnredactedStatus) + differential runs "
             "on a real Workceptor: random parameter maps (key case variants, boundary keys), with/without TLS profile, with a restart "
             "from disk; every status/list response scanned for the secret values; and histories of several submissions, restarts, status, "
             "list, cancel, release and force-release on one node, compared step by step with WorkNode.run.",
        note=BASE_NOTE + "Only remote units carry secret_* parameters; Kubernetes units have their own redaction (outside the anchors)."),
    "C16": dict(
        text="Theorems notice_fields_echo, local_sender_gets_error, notice_published_at_origin, notice_only_to_sender_socket / "
             "notice_not_to_other_nodes, dial_cancelled_by_notice / other_notices_do_not_cancel, drop_is_silent over the packet-handling "
             "model; no_notice_lost, delivered_is_prefix, no_deadlock (and a witness of the discarding variant) over a model of the chain "
             "of blocking hand-offs from the node's broker to the subscriber. Tie: regenerated facts (unknown-listener branch, notice "
             "fields, per-socket filter, dial-cancel condition, every hop an unbuffered blocking send) + "
             "differential runs of handleMessageData (single node and multi-node) and of StartUnreachable/SubscribeUnreachable/"
             "monitorUnreachable with several sockets and pending dials (deterministic marker protocol, no timing).",
        note=BASE_NOTE + "'Fails fast' (notice beats the 15 s QUIC handshake time-out) is a real-time statement: measured, not proved."),
    "C18": dict(
        text="Theorems ads_newer_wins, entry_time_monotone; ads_no_resurrection and ads_converge_same_messages (order independence "
             "per node) by an inductive invariant over arbitrary histories, for the variant that remembers withdrawals — which the "
             "source implements since the repair of the two defects this check found (resurrection after a withdrawal, a withdrawal "
             "relayed again and again; their witness theorems remain as theorems about the variant without tombstones). Tie: "
             "withdrawn_stays_withdrawn and owner_race_no_resurrection (an advertisement round of the owner that overlaps the closing of "
             "the listener cannot resurrect the service anywhere), close_serialised_with_rounds (Close unregisters and stamps under the "
             "listener lock: a round either does not see the socket or is older than the withdrawal). Tie: "
             "regenerated facts (withdrawal test, keep test, record/forget, relay, where an advertisement is stamped) + an owner-side op "
             "(the listener closed between collection and send of a round) + differential runs of handleServiceAdvertisement "
             "on shuffled/duplicated histories with logical times, the former failing histories first (corpus).",
        note=BASE_NOTE + "Network-level convergence is stated per node (same messages ⇒ same entry); periodic re-advertisement not modelled."),
    "C20": dict(
        text="Theorem receptorNames_makeSAN: for all DNS/IP/node-ID lists (valid UTF-8, any length, duplicates) the names read back "
             "from the extension MakeReceptorSAN builds are exactly the requested IDs; witness theorem for the repaired defect; model tied "
             "to the code by the regenerated header-strip fact and a byte-exact differential run of MakeReceptorSAN/ReceptorNames.",
        note=BASE_NOTE + "Modelled, not verified: encoding/asn1 for the subset used; crypto/x509 certificate creation."),
    "C02": dict(
        text="Theorems decode_encode (wire codec round trip for all payloads/TTLs/names/services of 1-8 non-NUL-terminated bytes), "
             "deframe_any_schedule (every chunking and every placement of reads returns exactly the framed messages), "
             "deliver_exactly_once_at_addressee (hop-by-hop walk over arbitrary networks with a route), addressee_unique (IDs that differ "
             "only in letter case are different nodes), stream_link_roundtrip (encode, frame, any chunking, deframe, decode = identity on "
             "every sequence of datagrams), local_send_intact (a datagram for a socket of the same node carries its own copy of the "
             "payload, whatever the sender does with its buffer afterwards), concurrent_sends_independent / concurrent_sends_safe_at_every_moment / "
             "each_send_ends_once (any number of datagrams in flight, every schedule of their single steps: each send ends exactly once, at the "
             "node and with the outcome it has when followed alone; a draining schedule exists for every burst). Tie: regenerated layout/"
             "framing facts + byte-exact differential runs of translateData*, the framer and handleMessageData (single node and multi-node pump), "
             "and real nodes in a chain (link engine): payloads of 0 … MTU bytes (MTU-37 … MTU included) sent across real links between nodes "
             "whose IDs may differ only in case, every node listening on the service — received exactly once, at the addressee, unaltered; "
             "bursts of 150000 datagrams to a listener on the same node from a sender that reuses its buffer after every WriteTo.",
        note=BASE_NOTE + "Assumed: highwayhash collision-free on the names in play; Go channel/map semantics. Concurrent senders: the schedule "
             "theorem takes a step of one datagram as atomic with respect to the node tables it reads (routing table and listener registry "
             "are read under their locks: facts dispatch_key, send_local_copy); the link engine sends from several goroutines at once."),
    "C11": dict(
        text="Theorems established_admissible, established_only_by_admit, rejected_leaves_nothing, one_per_id (connection table Nodup "
             "for every order of simultaneous handshakes, the check-and-insert being atomic), post_establishment_checks (identity change, "
             "unlisted, cost disagreement ⇒ reject + removal), session_end_forgets, later_duplicate_shuts_down / earlier_survives, and a "
             "witness theorem of the repaired empty-ID defect. Tie: regenerated facts (order of the handshake checks and the lock span, "
             "post-establishment checks, removeConnection on every exit path) + differential runs of runProtocol with scripted sessions "
             "over allow-list × cost overrides × announced ID/cost/forwarder, and of handleRoutingUpdate for the duplicate-node logic.",
        note=BASE_NOTE + "Racing sessions are modelled as atomic steps under the lock fact, not forced dynamically."),
    "C12": dict(
        text="Theorems first_match_decides / evalRules_cases / default_accept / match_iff_all_fields over the rule loop, "
             "regex_full_match (derivative matcher proved equal to the denotational language of the pattern), parseRule_strict / "
             "buildPat_strict / nonstring_refused (a rule that parses constrains every given field exactly; malformed input is refused), "
             "plus witness theorems of the three repaired defects. Tie: regenerated facts (error propagation, regex wrapping, loop shape, "
             "position before dispatch) + differential runs of ParseFirewallRules and handleMessageData with literal and regex rules.",
        note=BASE_NOTE + "Go regexp trusted for full syntax; the correspondence uses a regex subset rendered from ASTs."),
    "C01": dict(
        text="Theorems lc_terminates_every_schedule and lc_completes (the table computation stops for every graph with finitely many nodes and every pop order, and reaches a state with an empty queue) in addition to: Algorithm layer at full strength: lc_correct_every_schedule (labels = least walk weights for every graph and every pop "
             "order of the label-correcting loop), nexthop_valid, table_has_reachable / table_drops_unreachable, hop_decreases_distance, "
             "walk_loop_free; silent_link_expires / live_link_kept for connection aging; protocol layer flood_round_truth_partial and "
             "flood_truth_after_changes_partial (the topology may change any number of times between quiescent moments) "
             "(one flooding round from a quiescent state: every node of the component holds the origin's true adjacency, for every "
             "interleaving and bag delivery; simplified setting, named partial). Tie: regenerated facts (relax test, re-enqueue, "
             "prev walk, aging order) + differential runs of updateRoutingTable on random graphs (costs equal, each hop on a least-cost "
             "path), of handleRoutingUpdate histories and of protoReader.",
        note=BASE_NOTE + "Not proved: the protocol theorem for epochs/notices/link events inside one round (proved between quiescent moments); the "
             "real-time bound. Float costs modelled as naturals."),
    "C06": dict(
        text="Theorems replay_is_noop, stale_is_noop, no_self_accept / self_origin_never_accepted, relay_excludes_receiver, "
             "info_monotone, relay_at_most_once (induction over arbitrary histories), relay_at_most_once_despite_expiry_partial and "
             "info_monotone_despite_expiry (histories of genuine updates in which the seen table forgets any entries at any moments: the "
             "update an origin stamped (epoch, seq) is relayed in at most one step, under whatever IDs its copies arrive), flood_terminates_bound over the executable "
             "model of handleRoutingUpdate (path by path, incl. suspected-duplicate notices, nil-vs-empty maps). Tie: regenerated "
             "facts (stale tests and operators, dedup position and lock span, relay call, self filter) + differential runs of random "
             "update histories (restarts, replays, old-epoch stragglers, notices, removals, originations) on a real Netceptor.",
        note=BASE_NOTE + "Seen-table expiry (an event forgetting any entries) and the concurrency of per-connection goroutines are modelled as sequential steps under the "
             "lock facts; notices bypass the epoch test by design (at-most-once per UpdateID only): partial."),
    "C07": dict(
        text="Theorems proto_no_crash / proto_script_no_crash (no datagram of any kind, length, JSON shape or field-type substitution, in "
             "either phase, makes a session step panic or die), proto_never_poisons (no update with a non-positive cost is applied), "
             "session_isolated (a session can only remove its own connection), plus witness theorems for the four repaired defects. "
             "Tie: regenerated guard facts (length test before data[0], nil-embedded check, ping guard, cost guard, type dispatch) + "
             "differential runs of the real runProtocol against scripted sessions in child processes (fatal errors and hangs are "
             "observed as such), with a lock/termination probe after every script.",
        note=BASE_NOTE + "encoding/json decoding rules are modelled for the two target structs over a JSON value tree; the wedge claim is "
             "checked dynamically (lock probe, routing computation terminates) and by the guard facts, not by a lock-order theorem."),
    "C09": dict(
        text="Theorems accept_iff, any_single_failure_refuses, pin_rule / unsupported_pin_refuses, receptor_name_required, "
             "client_bound_to_source (with the excluded colon point as a witness theorem), only_the_leaf_counts, "
             "required_client_cert_binds_source, require_implies_binding (and a witness of the downgrading variant) over the decision model "
             "of ReceptorVerifyFunc, PrepareTLSServerConfig's client-authentication mode and the listener's client-name binding. Tie: "
             "regenerated facts (pin lengths, order and error exits of the verification steps, role usages, name comparison, "
             "GetClientTLSConfig per mode, listener expression and its condition, the verifier a state-free closure reading the clock per "
             "handshake, pins compared with the leaf only, client-auth mode per profile) + differential runs of the real "
             "ReceptorVerifyFunc on certificates constructed for the whole product in the quantifier, on presented chains, with "
             "certificates issued/expired after the verifier was made, and real mutual-TLS stream dials on a two-node mesh for every "
             "server profile x client certificate kind.",
        note=BASE_NOTE + "x509/TLS internals are oracles (ground truth by construction)."),
    "C10": dict(
        text="Theorems forward_bound (at most h relays for every table assignment incl. loops), reach_iff, expiry_reporter, "
             "traceroute_path, notice_terminates, zero_budget_reported_at_origin over the executable model of handleMessageData/forwardMessage; "
             "tie: regenerated facts (expire test, decrement, guard, statement order, notice budget, a ping subscribes before it sends) + "
             "differential single-node and multi-node runs incl. adversarial tables, and bursts of concurrent budget-0 pings on a real node.",
        note=BASE_NOTE + "Ping/Traceroute client timing (10 s timeout) is runtime behaviour, not modelled."),
}
