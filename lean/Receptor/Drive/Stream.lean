import Receptor.Drive.Util
import Receptor.Model.Bridge
import Receptor.Model.StreamEnd
import Receptor.Generated.Facts
namespace Receptor.Drive.Stream
open Lean Receptor.Drive Receptor.Bridge

def getInt (j : Json) (k : String) : Except String Int := do (← j.getObjVal? k).getInt?

/-- does the source's relay loop write the bytes that came with the end of the stream?  (regenerated fact) -/
def writeThenCheck : Bool :=
  Receptor.Facts.bridge_loop = "read;err:shouldClose;n>0:write(buf[:n]),short->shouldClose;shouldClose:close(c2),return"

/-- does the listener accept a stream whose initial byte arrives together with the end of the stream? -/
def byteWithEofAccepted : Bool :=
  match Receptor.StreamEnd.accept
      (decide (Receptor.Facts.stream_first_byte = "dial:write(0);accept:read(1);byte-with-eof:accepted;check(n==1,byte==0)"))
      [⟨[0], true⟩] with
  | .accepted _ => true
  | _ => false

def handle (op : String) (a r : Json) : Except String Reply := do
  match op with
  | "transfer" =>
    if let some e := optField r "error" then throw s!"harness error: {e.compress}"
    let a2b ← getNat a "a2b"
    let b2a ← getNat a "b2a"
    let bridged := (getBool a "bridged").toOption.getD false
    let duplex := (getStr a "mode").toOption.getD "duplex" == "duplex"
    -- the specification: each side receives exactly what the other wrote, then end-of-stream
    let spec := jObj [("a_got", jNat b2a), ("a_bad", Json.num (JsonNumber.fromInt (-1))), ("a_eof", Json.bool true), ("a_werr", Json.str ""),
                      ("b_got", jNat a2b), ("b_bad", Json.num (JsonNumber.fromInt (-1))), ("b_eof", Json.bool true), ("b_werr", Json.str ""),
                      ("nontrivial", Json.bool true)]
    -- the model of the source as it is: a relay run on one read that carries the last bytes together with the end
    -- of the stream tells whether the bridged variant can lose a tail; the rest is the specification
    let tailKept := (bridgeHalf writeThenCheck {} [⟨[1, 2, 3], false⟩, ⟨[4, 5], true⟩] {}).written == [1, 2, 3, 4, 5]
    let m := if (!bridged || tailKept) then spec else jObj [("unmodelled", Json.str "the relay loop of the source loses bytes that arrive with the end of the stream")]
    let aGot := (getNat r "a_got").toOption.getD 0
    let bGot := (getNat r "b_got").toOption.getD 0
    let aBad := (getInt r "a_bad").toOption.getD 0
    let bBad := (getInt r "b_bad").toOption.getD 0
    let aEof := (getBool r "a_eof").toOption.getD false
    let bEof := (getBool r "b_eof").toOption.getD false
    let aErr := (getStr r "a_werr").toOption.getD ""
    let bErr := (getStr r "b_werr").toOption.getD ""
    let timeout := (optField r "timeout").isSome
    let emptyDial := a2b == 0
    let altPath := (getBool a "alt_path").toOption.getD false
    let routeErr (e : String) : Bool := (e.splitOn "no connection to next hop").length > 1 || (e.splitOn "no route to node").length > 1 || (e.splitOn "connInfo cancelled").length > 1
      || (e.splitOn "stateless reset").length > 1   -- the peer gave the connection up for the same reason
    let rerouteAbort := altPath && (routeErr aErr || routeErr bErr)
    let (holds, why, sig) : Bool × String × String :=
      if timeout then (false, s!"the transfer did not finish (received so far: {aGot} of {b2a} and {bGot} of {a2b})", "C03/transfer-stuck")
      else if rerouteAbort then
        (false, s!"while the route changed to the other path a datagram could not be sent for a moment; the error went to the QUIC layer, which aborted the connection ({aErr}{bErr})",
         "C03/reroute-error-aborts-stream")
      else if aBad ≥ 0 || bBad ≥ 0 then (false, s!"a received byte differs from the byte written at that position (first at {max aBad bBad})", "C03/bytes-altered")
      else if bridged && duplex && (aGot < b2a || bGot < a2b) then
        (false, s!"behind the bridges the direction still being written was cut when the other direction ended: {aGot} of {b2a} and {bGot} of {a2b} bytes arrived ({aErr}{bErr})",
         "C03/bridge-close-cuts-other-direction")
      else if emptyDial && (bErr.startsWith "accept:") then
        (false, s!"a stream whose dialler closed its writing side without writing was refused by the listener ({bErr}); {aGot} of {b2a} bytes arrived", "C03/empty-dial-refused")
      else if aGot != b2a || bGot != a2b then (false, s!"{aGot} of {b2a} and {bGot} of {a2b} bytes arrived", "C03/bytes-lost-or-repeated")
      else if !aEof || !bEof then (false, "end-of-stream was not seen after the data", "C03/no-end-of-stream")
      else if aErr != "" || bErr != "" then (false, s!"a write failed: {aErr}{bErr}", "C03/write-failed")
      else (true, "", "")
    -- what the source as it is does in the two situations the specification forbids (so that the model agrees with it):
    let m' :=
      if emptyDial && !byteWithEofAccepted && bErr.startsWith "accept:" then r   -- refused, as the source's accept loop does
      else if rerouteAbort then r   -- PacketConn.WriteTo hands the routing error to quic-go, which gives the connection up
      else if bridged && duplex && Receptor.Facts.bridge_loop.endsWith "shouldClose:close(c2),return" && (aGot < b2a || bGot < a2b) && aBad < 0 && bBad < 0 then
        r   -- the relay closes its destination completely: how much of the other direction got through is a matter of timing
      else m
    pure { m := m', prop := some holds, why := why, sig := sig }
  | _ => throw s!"bad-op stream {op}"

end Receptor.Drive.Stream
