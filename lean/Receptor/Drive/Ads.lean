import Receptor.Drive.Util
import Receptor.Model.Ads
import Receptor.Generated.Facts
namespace Receptor.Drive.Ads
open Lean Receptor.Drive Receptor.Ads

def bytesOf (s : String) : List Nat := s.toUTF8.toList.map (·.toNat)

def getMsg (j : Json) : Except String (Msg × Node) := do
  let tags ← match optField j "tags" with
    | some (Json.obj o) => o.toList.mapM fun (k, v) => do pure (bytesOf k, bytesOf (← v.getStr?))
    | _ => pure []
  let cancel ← getBool j "cancel"
  pure ({ node := ← getHex j "node", svc := ← getHex j "svc", time := ← getNat j "time",
          info := { connType := ← getNat j "type", tags := if cancel then [] else tags }, cancel := cancel },
        ← getHex j "recv")

def strOf (b : List Nat) : String := String.ofList (b.map fun n => Char.ofNat n)

def obs (s : State) (acts : List Action) : Json :=
  jObj [("ret", Json.bool true),
        ("relay_set", jArr (acts.map fun a => match a with
          | .relay to m => jObj [("to", jHex to), ("node", jHex m.node), ("svc", jHex m.svc), ("time", jNat m.time), ("cancel", Json.bool m.cancel)])),
        ("listed_set", jArr ((listed s).map fun (k, t, i) =>
          jObj [("node", jHex k.1), ("svc", jHex k.2), ("time", jNat t), ("type", jNat i.connType),
                ("tags", jObj (i.tags.map fun (a, b) => (strOf a, Json.str (strOf b))))]))]

def runObs (tb : Bool) : State → List (Msg × Node) → List Json
  | _, [] => []
  | s, (m, r) :: rest => let (s', a) := step tb s m r; obs s' a :: runObs tb s' rest

/-- property predicates on the implementation's observations -/
def checkHist (conns : List Node) (msgs : List (Msg × Node)) (obsl : List Json) : Option (String × String) := Id.run do
  let mut seen : List (Msg × Node) := []
  let mut relayedCancels : List (List Nat × List Nat × Nat) := []
  for ((m, r), o) in msgs.zip obsl do
    -- a message strictly newer than everything processed for its service must reach every other neighbour
    let newest := seen.all fun x => !(x.1.node == m.node && x.1.svc == m.svc) || x.1.time < m.time
    if newest then
      let tos := ((getArr o "relay_set").toOption.getD []).filterMap fun x => (getHex x "to").toOption
      if !((conns.filter fun c => c != r).all fun c => tos.contains c) then
        return some ("C18/new-message-not-relayed", "an advertisement or withdrawal newer than anything known was not relayed to every other neighbour")
    seen := seen ++ [(m, r)]
    -- a listed entry must be the content (type, tags) of an advertisement processed with that timestamp
    for l in (getArr o "listed_set").toOption.getD [] do
      let ok : Except String Bool := do
        let n ← getHex l "node"; let sv ← getHex l "svc"; let t ← getNat l "time"; let ty ← getNat l "type"
        let tags ← (← (← l.getObjVal? "tags").getObj?).toList.mapM fun (k, v) => do pure (bytesOf k, bytesOf (← v.getStr?))
        pure (seen.any fun x => x.1.node == n && x.1.svc == sv && x.1.time == t && !x.1.cancel && x.1.info.connType == ty
                && x.1.info.tags.length == tags.length && x.1.info.tags.all (fun kv => tags.contains kv))
      match ok with
      | .ok false => return some ("C18/listed-content-not-of-that-advertisement", "a listed service shows a type/tags that no advertisement with that timestamp carried")
      | _ => pure ()
    -- resurrection / older replaces newer: a listed entry must carry the greatest time seen for its key
    for l in (getArr o "listed_set").toOption.getD [] do
      let res : Except String (Option (String × String)) := do
        let n ← getHex l "node"; let sv ← getHex l "svc"; let t ← getNat l "time"
        let mx := maxTime (n, sv) seen
        if t < mx then
          let byCancel := seen.any fun x => x.1.node == n && x.1.svc == sv && x.1.cancel && x.1.time == mx
          pure (some (if byCancel then ("C18/resurrected-after-withdrawal", "a service is listed although a newer withdrawal had been processed")
                      else ("C18/older-replaced-newer", "a listed advertisement is older than one already processed")))
        else pure none
      match res with
      | .ok (some v) => return some v
      | _ => pure ()
    -- a withdrawal that was already processed must not be relayed again
    if m.cancel then
      let rel := !((getArr o "relay_set").toOption.getD []).isEmpty
      if rel then
        if relayedCancels.contains (m.node, m.svc, m.time) then
          return some ("C18/withdrawal-relayed-again", "the same withdrawal was relayed a second time (in a cyclic topology it circulates for ever)")
        relayedCancels := relayedCancels ++ [(m.node, m.svc, m.time)]
  return none

def handle (op : String) (a r : Json) : Except String Reply := do
  match op with
  | "run" =>
    let conns ← getHexList a "conns"
    let msgs ← (← getArr a "msgs").mapM getMsg
    let s0 : State := { table := [], conns := conns }
    let m := jObj [("ok", jArr (runObs Receptor.Facts.ads_tombstones s0 msgs)), ("nontrivial", Json.bool true)]
    match checkHist conns msgs ((getArr r "ok").toOption.getD []) with
    | some (sig, why) => pure { m := m, prop := some false, why := why, sig := sig }
    | none => pure { m := m, prop := some true }
  | "owner" =>
    if let some e := optField r "error" then throw s!"harness error: {e.compress}"
    let fired := (getBool r "fired").toOption.getD false
    if !fired then
      pure { m := jObj [("unmodelled", Json.str "the harness could not place the close between collection and send")], prop := none, why := "", sig := "" }
    else
    let variant := (getStr a "variant").toOption.getD ""
    -- which regenerated fact decides the order of the two time stamps in this scenario: where an advertisement is
    -- stamped (close during the send), or where Close stamps the withdrawal (a round just before Close gets the lock)
    let stampAtCollection : Bool :=
      if variant == "round-before-close-lock" then Receptor.Facts.ads_close_order = "lock<unregister<withdraw"
      else Receptor.Facts.ads_stamp = "collect:Time=time.Now(),under-listenerLock;send:unstamped"
    let rc : OwnerRace := { collectAt := 1, closeAt := 2, sendAt := 3 }
    let node : Node := [1]
    let svc : Svc := [2]
    let inf : Info := ⟨0, []⟩
    let listedAfter (stamp : Bool) (rev : Bool) : Bool :=
      -- the owner emits the withdrawal first (the close happens before the send), then the stale advertisement
      let seq := [(ownerWithdrawal node svc rc, ([9] : Node)), (ownerAd stamp node svc inf rc, [9])]
      let seq := if rev then seq.reverse else seq
      !(listed (run Receptor.Facts.ads_tombstones { table := [], conns := [] } seq).1).isEmpty
    let obsOf (stamp : Bool) : Json :=
      jObj [("fired", Json.bool true), ("messages", jNat 2),
            ("ad_not_after_withdrawal", Json.bool (decide ((ownerAd stamp node svc inf rc).time ≤ (ownerWithdrawal node svc rc).time))),
            ("listed", jArr [Json.bool (listedAfter stamp false), Json.bool (listedAfter stamp true)])]
    let m := obsOf stampAtCollection
    let spec := obsOf true
    let holds := canonEq r spec
    pure { m := m, prop := some holds,
           why := if holds then "" else "a listener closed while the owner's advertisement round was under way: the stale advertisement is newer than the withdrawal and the closed service is listed again by other nodes",
           sig := if holds then "" else "C18/owner-round-resurrects-closed-service" }
  | _ => throw s!"bad-op ads {op}"

end Receptor.Drive.Ads
