import Receptor.Drive.Util
import Receptor.Model.Results
import Receptor.Model.Crash
import Receptor.Generated.Facts
namespace Receptor.Drive.Mirror
open Lean Receptor.Drive Receptor.Results

/-- does the source ask for the results from its current local size, measured right before each request? -/
def offsetFresh : Bool :=
  Receptor.Facts.res_remote_offset = "diskStdoutSize := stdoutSize(rw.UnitDir());workSubmitCmd[\"startpos\"] = diskStdoutSize"

def getInt (j : Json) (k : String) : Except String Int := do (← j.getObjVal? k).getInt?

def handle (op : String) (a r : Json) : Except String Reply := do
  match op with
  | "mirror" =>
    if let some e := optField r "error" then throw s!"harness error: {e.compress}"
    let evs ← getArr a "events"
    -- the model: the remote output grows; requests are cut short at arbitrary points while the link is down;
    -- in the end one request is not cut
    let mut m : Mirror := {}
    let mut k := 0
    for e in evs do
      let kind ← getStr e "k"
      let n := (getNat e "n").toOption.getD 0
      match kind with
      | "append" =>
        let base := m.remote.length   -- computed once: the closure below must not measure the list for every byte
        m := mstep m (.grow ((List.range n).map fun i => (base + i) % 251))
      | "cut" => k := k + 1; m := mstep m (.fetch ((m.remote.length - m.loc.length) / (k + 1)))
      | "restore" => m := mstep m (.fetch ((m.remote.length - m.loc.length) / 2))
      | _ => pure ()
    let prefixOK := m.loc == m.remote.take m.loc.length
    m := mstep m (.fetch (m.remote.length - m.loc.length))
    let total := m.remote.length
    let mj := jObj [("total", jNat total), ("local_len", jNat m.loc.length), ("equal", Json.bool (m.loc == m.remote && prefixOK)), ("caught_up", Json.bool true),
                    ("not_prefix", Json.str ""), ("local_state", jNat 2), ("local_size", jNat total), ("nontrivial", Json.bool true)]
    -- C04: the submitting node restarted with the link down, after the copy was complete — what the restarted node
    -- reports is what `restartView` makes of the record on disk; the output file is untouched
    let restartA := (getBool a "restart_a").toOption.getD false
    let afterSpec : Json :=
      match Receptor.Crash.restartView 1 [1, 2, 3]
          { dir := true, status := .full { wt := 1, state := 2, size := total, remote := some 1, started := true } } with
      | .listed w st sz rm =>
        jObj [("listed", Json.bool true), ("wt", Json.str (if w == 1 then "remote" else "?")), ("node", Json.str (if rm.isSome then "mirB" else "")),
              ("remote_unit", Json.bool rm.isSome), ("state", jNat st), ("size", jNat sz), ("local_len", jNat total), ("equal", Json.bool true),
              ("results_len", jNat total)]
      | .notListed => jObj [("listed", Json.bool false)]
    let mj := if restartA then mj.setObjVal! "after_restart" afterSpec else mj
    let afterOK := !restartA || (match optField r "after_restart" with
      | some o => canonEq o afterSpec
      | none => false)
    let notPrefix := (getStr r "not_prefix").toOption.getD "?"
    let equal := (getBool r "equal").toOption.getD false
    let caught := (getBool r "caught_up").toOption.getD false
    let localLen := (getInt r "local_len").toOption.getD 0
    let (holds, why, sig) : Bool × String × String :=
      if notPrefix != "" then (false, s!"while the output of a remote unit was mirrored across link cuts: {notPrefix}", "C05/mirror-not-a-prefix")
      else if !caught then (false, s!"the local copy of a finished remote unit never caught up ({localLen} of {total} bytes)", "C05/mirror-never-complete")
      else if !equal then (false, s!"the local copy of a finished remote unit differs from the remote output ({localLen} of {total} bytes)", "C05/mirror-differs")
      else if !afterOK then
        (false, s!"a finished remote unit whose output had been copied completely: after a restart of the submitting node (executing node unreachable) it no longer reports the same state and size, or its output ({total} bytes) can no longer be fetched: {((optField r "after_restart").getD Json.null).compress}",
         "C04/finished-remote-unit-changed-by-restart")
      else (true, "", "")
    -- when the source asks from a stale offset the model of the source is the witness `session … off < loc.length`:
    -- duplicates; how many depends on timing
    let m' := if offsetFresh then mj else jObj [("unmodelled", Json.str "the source asks for results from a stale offset")]
    pure { m := m', prop := some holds, why := why, sig := sig }
  | "ackcrash" =>
    if let some e := optField r "error" then throw s!"harness error: {e.compress}"
    -- the records of the unit so far: at creation (bound to the executing node, no remote unit yet) and — when the source
    -- stores the remote unit's ID as soon as it is acknowledged (regenerated fact) — the rewrite carrying it.  `remote` stands
    -- for the remote unit here (7 = the ID the executing node answered).
    let early : Bool := Receptor.Facts.crash_remote_bind_order = "store(RemoteUnitID);stream-stdin;store(RemoteStarted)"
    let r0 : Receptor.Crash.Rec := { wt := 1, state := 0, size := 0, remote := none }
    let disk := Receptor.Crash.applyAll {} (Receptor.Crash.history false r0 [{ r0 with remote := some 7 }])
    let expect : Json :=
      match Receptor.Crash.restartView 1 [1] disk with
      | .listed w _ _ rm =>
        jObj [("listed", Json.bool true), ("wt", Json.str (if w == 1 then "remote" else "")), ("node", Json.str "ackB"),
              ("remote_unit", Json.str (if rm == some 7 then "remote123" else ""))]
      | .notListed => jObj [("listed", Json.bool false)]
    let obs ← getArr r "points"
    let spec := jObj [("points", jArr (obs.map fun _ => expect)), ("nontrivial", Json.bool true)]
    let holds := canonEq r spec
    let m := if early then spec else jObj [("unmodelled", Json.str "the remote unit's ID is not stored before its stdin is sent")]
    pure { m := m, prop := some holds,
           why := if holds then "" else s!"a remote unit whose executing node had acknowledged it (remote unit remote123): a node killed while the unit's stdin was being sent comes back with the unit not listed, without its work type, or no longer bound to that node and remote unit: {r.compress}",
           sig := if holds then "" else "C04/remote-binding-lost-by-crash-during-stdin" }
  | _ => throw s!"bad-op mirror {op}"

end Receptor.Drive.Mirror
