/-!
# Peer verification decision (`ReceptorVerifyFunc`, `GetClientTLSConfig`, the stream
listener's client-name binding) — properties C09 and C20 (acceptance of issued certificates).

Certificate parsing, chain building, validity and key usage, and x509's DNS-name check are
oracle booleans (ground truth supplied by the harness that constructs the certificates);
what is modelled is receptor's own logic on top of them: the pin rule, the receptor-name
rule, which mode disables what, and the name the listener expects.
-/
namespace Receptor.Verify

abbrev Bytes := List Nat

inductive Mode where
  | dns | receptor
  deriving DecidableEq, Repr

/-- whom we are verifying -/
inductive Role where
  | server | client
  deriving DecidableEq, Repr

structure Peer where
  parsed : Bool                 -- x509.ParseCertificate succeeded
  chainOK : Bool                -- chains to the configured authority
  validNow : Bool               -- NotBefore ≤ now ≤ NotAfter
  usageServer : Bool            -- usable for server authentication
  usageClient : Bool            -- usable for client authentication
  dnsOK : Bool                  -- x509 hostname verification against the expected DNS name
  names : Option (List Bytes)   -- receptor names of the leaf; `none` = decoding error
  /-- digest of the raw leaf for a supported digest length -/
  digest : Nat → Bytes

structure Cfg where
  pins : List Bytes
  expected : Bytes
  mode : Mode
  role : Role

def supportedLen (n : Nat) : Bool := n == 28 || n == 32 || n == 48 || n == 64

/-- the pin rule: no pins ⇒ skipped; a pin of unsupported length anywhere ⇒ refuse;
otherwise some pin must equal the digest of its length -/
def pinOK (pins : List Bytes) (digest : Nat → Bytes) : Bool :=
  pins.isEmpty || (pins.all (fun p => supportedLen p.length) && pins.any (fun p => p == digest p.length))

def usageOK (r : Role) (p : Peer) : Bool :=
  match r with
  | .server => p.usageServer
  | .client => p.usageClient

/-- the name rule: receptor mode requires the expected node ID among the certificate's
receptor names (exact, case-sensitive comparison); DNS mode delegates to x509 when a name is
expected -/
def nameOK (c : Cfg) (p : Peer) : Bool :=
  match c.mode with
  | .receptor =>
    match p.names with
    | some l => l.contains c.expected
    | none => false
  | .dns => c.expected.isEmpty || p.dnsOK

/-- the verdict of the function `ReceptorVerifyFunc` returns -/
def decide (c : Cfg) (p : Peer) : Bool :=
  p.parsed && pinOK c.pins p.digest && p.chainOK && p.validNow && usageOK c.role p && nameOK c p

/-- The name a mutually authenticated stream listener checks the client certificate against:
`strings.Split(remoteAddr.String(), ":")[0]` where the address prints as `node:service`. -/
def expectedClientName (node svc : Bytes) : Bytes := (node ++ 58 :: svc).takeWhile (· != 58)

end Receptor.Verify
