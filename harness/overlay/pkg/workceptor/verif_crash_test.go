package workceptor

// C04 harness: a daemon process (this test binary, TestVerifDaemonChild: a real Workceptor on a data
// directory, work commands taken from stdin) is driven by the parent, killed — with SIGKILL at an armed
// crash point inside a file-system sequence (verifCrashPoint in the instrumented workunitbase.go /
// workceptor.go), or from outside — and started again on the same data directory.  Command units run
// the real detached runner (TestVerifRunnerChild), which can be crashed at its own points.  After the
// restart every unit whose ID had been handed out is looked up through the work commands.

import (
	"bufio"
	"encoding/json"
	"fmt"
	"os"
	"os/exec"
	"path"
	"sort"
	"strings"
	"sync"
	"sync/atomic"
	"syscall"
	"testing"
	"time"
)

type crashDaemonSpec struct {
	DataDir string `json:"datadir"`
}

type crashReq struct {
	ID  int                    `json:"id"`
	Cfg map[string]interface{} `json:"cfg"`
}

type crashResp struct {
	ID      int                    `json:"id"`
	Res     map[string]interface{} `json:"res"`
	Err     string                 `json:"err"`
	Written string                 `json:"written"` // hex of what a results command streamed
}

// TestVerifDaemonChild is the daemon.
func TestVerifDaemonChild(t *testing.T) {
	specS := os.Getenv("VERIF_DAEMON")
	if specS == "" {
		t.Skip("not a daemon")
	}
	var spec crashDaemonSpec
	if err := json.Unmarshal([]byte(specS), &spec); err != nil {
		t.Fatal(err)
	}
	out := os.NewFile(3, "verif-out")
	vw := verifNewWorld(spec.DataDir)
	// while the work types are being registered (the units found on disk are re-read one by one), clients already ask
	// about units by ID: every unit that has a readable record on disk must be known at every moment
	var onDisk []string
	if ents, err := os.ReadDir(path.Join(spec.DataDir, "verif-node")); err == nil {
		for _, e := range ents {
			if cl, _ := crashReadDisk(path.Join(spec.DataDir, "verif-node", e.Name(), "status")); e.IsDir() && cl == "full" {
				onDisk = append(onDisk, e.Name())
			}
		}
	}
	var queries, unknown int64
	var stopPoll int32
	var pollWG sync.WaitGroup
	for g := 0; g < 3 && len(onDisk) > 0; g++ {
		pollWG.Add(1)
		go func() {
			defer pollWG.Done()
			for atomic.LoadInt32(&stopPoll) == 0 {
				for _, id := range onDisk {
					_, err := vw.w.UnitStatus(id)
					atomic.AddInt64(&queries, 1)
					if err != nil && strings.Contains(err.Error(), "unknown work unit") {
						atomic.AddInt64(&unknown, 1)
					}
				}
			}
		}()
	}
	if err := vw.w.RegisterWorker("verifwork", verifNewUnit, false); err != nil {
		t.Fatal(err)
	}
	if err := vw.w.RegisterWorker("cmd", CommandWorkerCfg{WorkType: "cmd", Command: "/bin/sh", AllowRuntimeParams: true}.NewWorker, false); err != nil {
		t.Fatal(err)
	}
	atomic.StoreInt32(&stopPoll, 1)
	pollWG.Wait()
	fmt.Fprintf(out, "startup %d %d\n", queries, unknown)
	fmt.Fprintln(out, "ready")
	in := bufio.NewReader(os.Stdin)
	for {
		line, err := in.ReadString('\n')
		if err != nil {
			os.Exit(0)
		}
		var rq crashReq
		if json.Unmarshal([]byte(line), &rq) != nil {
			continue
		}
		go func(rq crashReq) {
			res, err, cfo := vw.command(rq.Cfg, "unix", "")
			rp := crashResp{ID: rq.ID, Res: res}
			if err != nil {
				rp.Err = err.Error()
			}
			if cfo != nil {
				cfo.mu.Lock()
				rp.Written = verifHex(cfo.written)
				cfo.mu.Unlock()
			}
			// the reply may contain types JSON cannot carry as they are: re-encode leniently
			b, jerr := json.Marshal(rp)
			if jerr != nil {
				b, _ = json.Marshal(crashResp{ID: rq.ID, Err: "marshal: " + jerr.Error()})
			}
			fmt.Fprintf(out, "%s\n", b)
		}(rq)
	}
}

type crashDaemon struct {
	startupQueries, startupUnknown int64 // by-ID queries answered while the work types were being registered, and how many said "unknown work unit"
	next  int
	cmd   *exec.Cmd
	stdin *os.File
	lines chan string
}

func crashStartDaemon(dir string, env []string) (*crashDaemon, error) {
	spec, _ := json.Marshal(crashDaemonSpec{DataDir: path.Join(dir, "data")})
	cmd := exec.Command(os.Args[0], "-test.run", "^TestVerifDaemonChild$", "-test.count=1", "-test.timeout=0")
	cmd.Env = append(append(os.Environ(), env...), "VERIF_DAEMON="+string(spec), "VERIF_ROLE=daemon")
	cmd.SysProcAttr = &syscall.SysProcAttr{Setpgid: true}
	inR, inW, _ := os.Pipe()
	outR, outW, _ := os.Pipe()
	cmd.Stdin = inR
	cmd.ExtraFiles = []*os.File{outW}
	if err := cmd.Start(); err != nil {
		return nil, err
	}
	inR.Close()
	outW.Close()
	d := &crashDaemon{cmd: cmd, stdin: inW, lines: make(chan string, 1024)}
	go func() {
		sc := bufio.NewScanner(outR)
		sc.Buffer(make([]byte, 1<<20), 1<<26)
		for sc.Scan() {
			d.lines <- sc.Text()
		}
		close(d.lines)
		outR.Close()
	}()
	go func() { _ = cmd.Wait() }()
	deadline := time.After(30 * time.Second)
	for {
		select {
		case l, ok := <-d.lines:
			if ok && strings.HasPrefix(l, "startup ") {
				_, _ = fmt.Sscanf(l, "startup %d %d", &d.startupQueries, &d.startupUnknown)
				continue
			}
			if !ok || l != "ready" {
				return nil, fmt.Errorf("daemon said %q", l)
			}
			return d, nil
		case <-deadline:
			_ = cmd.Process.Kill()
			return nil, fmt.Errorf("daemon did not start")
		}
	}
}

// do: one work command; ok=false when no reply came within d (the daemon died or the command blocks)
func (d *crashDaemon) do(cfg map[string]interface{}, wait time.Duration) (crashResp, bool) {
	cfg["command"] = "work"
	d.next++
	b, _ := json.Marshal(crashReq{ID: d.next, Cfg: cfg})
	if _, err := d.stdin.Write(append(b, '\n')); err != nil {
		return crashResp{}, false
	}
	deadline := time.After(wait)
	for {
		select {
		case l, ok := <-d.lines:
			if !ok {
				return crashResp{}, false
			}
			var rp crashResp
			_ = json.Unmarshal([]byte(l), &rp)
			if rp.ID != d.next {
				continue // the late answer to an earlier request
			}
			return rp, true
		case <-deadline:
			return crashResp{}, false
		}
	}
}

func (d *crashDaemon) kill() {
	_ = d.cmd.Process.Signal(syscall.SIGKILL)
	d.stdin.Close()
	time.Sleep(20 * time.Millisecond)
}

func (d *crashDaemon) alive() bool { return syscall.Kill(d.cmd.Process.Pid, 0) == nil && d.cmd.ProcessState == nil }

type crashUnit struct {
	Kind string `json:"kind"` // quick | slow | inproc | remote
	N    int    `json:"n"`
}

type crashArgs struct {
	Units  []crashUnit `json:"units"`
	Role   string      `json:"role"`  // daemon | runner | kill : who dies and how
	Point  string      `json:"point"` // crash point (daemon / runner)
	Nth    int         `json:"nth"`
	Victim crashUnit   `json:"victim"` // daemon crash: the submission during which the daemon dies
	Cycles int         `json:"cycles"` // further plain kill/restart cycles afterwards
}

type crashUnitObs struct {
	Kind   string `json:"kind"`
	Acked  bool   `json:"acked"`
	Disk   string `json:"disk"`        // the status file when the node is started again: absent | empty | full
	DWT    string `json:"disk_wt"`     // work type / state / size / remote node stored on disk then
	DState int    `json:"disk_state"`
	DSize  int64  `json:"disk_size"`
	DNode  string `json:"disk_node"`
	DDetail string `json:"disk_detail"`
	Listed bool   `json:"listed"`      // after the restart: `work list` has it
	WT     string `json:"wt"`
	State  int    `json:"state"`
	Size   int64  `json:"size"`
	Node   string `json:"node"`
	Blocked bool  `json:"blocked"`     // a status query got no answer in time
	Results string `json:"results"`    // finished units: "ok" | "short:<n>" | "wrong" | "none"
	Expect  int64 `json:"expect_out"`  // bytes the unit's command writes in all
	// a unit reported running after the restart: is the runner process its record names still alive?
	RunnerAlive bool `json:"runner_alive"`
}

// crashPidAlive: the process exists and is not a zombie
func crashPidAlive(pid int) bool {
	b, err := os.ReadFile(fmt.Sprintf("/proc/%d/stat", pid))
	if err != nil {
		return false
	}
	// pid (comm) state …: the state letter follows the last ')'
	t := string(b)
	i := strings.LastIndex(t, ")")
	return i >= 0 && i+2 < len(t) && t[i+2] != 'Z' && t[i+2] != 'X'
}

func crashReadDisk(file string) (string, *StatusFileData) {
	fi, err := os.Stat(file)
	if err != nil {
		return "absent", nil
	}
	if fi.Size() == 0 {
		return "empty", nil
	}
	s := &StatusFileData{}
	s.ExtraData = &RemoteExtraData{}
	if err := s.Load(file); err != nil {
		return "empty", nil
	}
	return "full", s
}

func crashApply(op string, raw json.RawMessage) interface{} {
	var a crashArgs
	if err := json.Unmarshal(raw, &a); err != nil {
		panic(err)
	}
	dir, err := os.MkdirTemp("", "verif-crash-*")
	if err != nil {
		panic(err)
	}
	defer os.RemoveAll(dir)
	bin := path.Join(dir, "bin")
	_ = os.MkdirAll(bin, 0o700)
	self, _ := os.Executable()
	shim := "#!/bin/sh\nVERIF_ROLE=runner VERIF_DAEMON= VERIF_RUNNER_ARGS=\"$(printf '%s\\n' \"$@\")\" exec " + self + " -test.run '^TestVerifRunnerChild$' -test.count=1 -test.timeout=0 >/dev/null 2>&1\n"
	if err := os.WriteFile(path.Join(bin, "receptor"), []byte(shim), 0o700); err != nil {
		panic(err)
	}
	crashFile := path.Join(dir, "crash.arm")
	env := []string{"PATH=" + bin + ":" + os.Getenv("PATH"), "VERIF_CRASH_FILE=" + crashFile, "VERIF_STATUS_LOG="}
	dataDir := path.Join(dir, "data", "verif-node")
	d, err := crashStartDaemon(dir, env)
	if err != nil {
		return map[string]interface{}{"error": "start: " + err.Error()}
	}
	submit := func(d *crashDaemon, u crashUnit, wait time.Duration) (string, bool) {
		cfg := map[string]interface{}{"subcommand": "submit", "node": "localhost"}
		switch u.Kind {
		case "quick":
			cfg["worktype"], cfg["params"] = "cmd", "-c 'printf "+strings.Repeat("q", u.N)+"'"
		case "slow":
			cfg["worktype"], cfg["params"] = "cmd", "-c 'printf "+strings.Repeat("s", u.N)+"; sleep 1.2; printf "+strings.Repeat("t", u.N)+"'"
		case "inproc":
			cfg["worktype"] = "verifwork"
		case "remote":
			cfg["node"], cfg["worktype"] = "faraway", "cmd"
		}
		rp, ok := d.do(cfg, wait)
		if !ok || rp.Err != "" {
			return "", false
		}
		id, _ := rp.Res["unitid"].(string)
		return id, id != ""
	}
	expectOut := func(u crashUnit) int64 {
		switch u.Kind {
		case "quick":
			return int64(u.N)
		case "slow":
			return int64(2 * u.N)
		}
		return 0
	}
	type tracked struct {
		u     crashUnit
		id    string
		acked bool
	}
	var units []tracked
	for _, u := range a.Units {
		id, ok := submit(d, u, 10*time.Second)
		if !ok {
			d.kill()
			return map[string]interface{}{"error": "submit failed: " + u.Kind}
		}
		units = append(units, tracked{u: u, id: id, acked: true})
	}
	time.Sleep(350 * time.Millisecond) // quick units finish; slow ones are running
	// the crash
	before := map[string]bool{}
	ents, _ := os.ReadDir(dataDir)
	for _, e := range ents {
		before[e.Name()] = true
	}
	hit := false
	switch a.Role {
	case "daemon":
		_ = os.WriteFile(crashFile, []byte(fmt.Sprintf("daemon %s %d", a.Point, a.Nth)), 0o600)
		id, ok := submit(d, a.Victim, 3*time.Second)
		if _, err := os.Stat(crashFile + ".hit"); err == nil {
			hit = true
		}
		if ok {
			units = append(units, tracked{u: a.Victim, id: id, acked: true})
		} else {
			// the submitter got no reply; the ID was handed out (in the prompt for stdin) once the first rewrite was done:
			// a victim that died in a later rewrite is acknowledged
			ents, _ := os.ReadDir(dataDir)
			for _, e := range ents {
				if !before[e.Name()] {
					acked := hit && ((a.Point == "upd.truncated" || a.Point == "upd.written" || a.Point == "upd.locked") && a.Nth >= 2)
					units = append(units, tracked{u: a.Victim, id: e.Name(), acked: acked})
				}
			}
		}
	case "runner-early":
		// the runner of a freshly submitted command dies at its very first rewrite; the node dies too
		_ = os.WriteFile(crashFile, []byte("runner upd.locked 1"), 0o600)
		if id, ok := submit(d, a.Victim, 5*time.Second); ok {
			units = append(units, tracked{u: a.Victim, id: id, acked: true})
		}
		dl := time.Now().Add(2 * time.Second)
		for time.Now().Before(dl) {
			if _, err := os.Stat(crashFile + ".hit"); err == nil {
				hit = true
				break
			}
			time.Sleep(5 * time.Millisecond)
		}
	case "runner":
		_ = os.WriteFile(crashFile, []byte(fmt.Sprintf("runner %s %d", a.Point, a.Nth)), 0o600)
		dl := time.Now().Add(2 * time.Second)
		for time.Now().Before(dl) {
			if _, err := os.Stat(crashFile + ".hit"); err == nil {
				hit = true
				break
			}
			time.Sleep(10 * time.Millisecond)
		}
	}
	_ = os.Remove(crashFile)
	d.kill()
	for c := 0; c < a.Cycles; c++ {
		d2, err := crashStartDaemon(dir, env)
		if err != nil {
			return map[string]interface{}{"restart_failed": err.Error(), "nontrivial": true}
		}
		time.Sleep(time.Duration(50+100*c) * time.Millisecond)
		d2.kill()
	}
	// what is on disk when the node comes back
	obs := make([]crashUnitObs, len(units))
	for i, t := range units {
		o := crashUnitObs{Kind: t.u.Kind, Acked: t.acked, Expect: expectOut(t.u)}
		cl, s := crashReadDisk(path.Join(dataDir, t.id, "status"))
		o.Disk = cl
		if s != nil {
			o.DWT, o.DState, o.DSize, o.DDetail = s.WorkType, s.State, s.StdoutSize, s.Detail
			if red, ok := s.ExtraData.(*RemoteExtraData); ok && red != nil {
				o.DNode = red.RemoteNode
			}
		}
		obs[i] = o
	}
	d3, err := crashStartDaemon(dir, env)
	if err != nil {
		return map[string]interface{}{"restart_failed": err.Error(), "nontrivial": true}
	}
	defer d3.kill()
	// running commands are followed to completion: give them time, then look
	time.Sleep(1800 * time.Millisecond)
	listed := map[string]bool{}
	if rp, ok := d3.do(map[string]interface{}{"subcommand": "list"}, 5*time.Second); ok {
		for k := range rp.Res {
			listed[k] = true
		}
	}
	for i, t := range units {
		o := &obs[i]
		o.Listed = listed[t.id]
		rp, ok := d3.do(map[string]interface{}{"subcommand": "status", "unitid": t.id}, 4*time.Second)
		if !ok {
			o.Blocked = true
			continue
		}
		if rp.Err == "" {
			o.WT, _ = rp.Res["WorkType"].(string)
			if f, ok := rp.Res["State"].(float64); ok {
				o.State = int(f)
			}
			if f, ok := rp.Res["StdoutSize"].(float64); ok {
				o.Size = int64(f)
			}
			if ed, ok := rp.Res["ExtraData"].(map[string]interface{}); ok {
				o.Node, _ = ed["RemoteNode"].(string)
			}
			if o.State == WorkStateRunning {
				var pid int
				if det, _ := rp.Res["Detail"].(string); det != "" {
					if _, err := fmt.Sscanf(det, "Running: PID %d", &pid); err == nil && pid > 0 {
						o.RunnerAlive = crashPidAlive(pid)
					}
				}
			}
		}
		o.Results = "none"
		if (o.State == WorkStateSucceeded || o.State == WorkStateFailed) && o.Expect > 0 && rp.Err == "" {
			rr, ok := d3.do(map[string]interface{}{"subcommand": "results", "unitid": t.id, "startpos": float64(0)}, 6*time.Second)
			switch {
			case !ok:
				o.Results = "blocked"
			case rr.Err != "":
				o.Results = "error:" + rr.Err
			default:
				got := verifUnhex(rr.Written)
				switch {
				case int64(len(got)) < o.Expect:
					o.Results = fmt.Sprintf("short:%d", len(got))
				case int64(len(got)) > o.Expect:
					o.Results = "wrong"
				default:
					o.Results = "ok"
				}
			}
		}
	}
	sort.SliceStable(obs, func(i, j int) bool { return false })
	return map[string]interface{}{"units": obs, "hit": hit, "nontrivial": true, "startup_unknown": d3.startupUnknown}
}

func crashGen(v *verifRun) {
	kinds := []string{"quick", "slow", "inproc", "remote"}
	dpoints := []string{"alloc.mkdir", "save.truncated", "alloc.saved", "upd.locked", "upd.truncated", "upd.written"}
	for i := 0; i < v.n; i++ {
		var a crashArgs
		n := 2 + v.rng.Intn(3)
		for k := 0; k < n; k++ {
			a.Units = append(a.Units, crashUnit{Kind: kinds[v.rng.Intn(len(kinds))], N: 1 + v.rng.Intn(8)})
		}
		switch v.rng.Intn(6) {
		case 0:
			a.Role = "kill"
		case 5:
			a.Role = "runner-early"
			a.Victim = crashUnit{Kind: "slow", N: 1 + v.rng.Intn(8)}
		case 1:
			a.Role = "runner"
			a.Point = []string{"upd.locked", "upd.truncated", "upd.written"}[v.rng.Intn(3)]
			a.Nth = 1 + v.rng.Intn(2)
			a.Units[0] = crashUnit{Kind: "slow", N: 1 + v.rng.Intn(8)} // somebody must be running
		default:
			a.Role = "daemon"
			a.Point = dpoints[v.rng.Intn(len(dpoints))]
			a.Nth = 1
			if strings.HasPrefix(a.Point, "upd.") {
				a.Nth = 1 + v.rng.Intn(4)
			}
			a.Victim = crashUnit{Kind: []string{"quick", "inproc", "remote", "slow"}[v.rng.Intn(4)], N: 1 + v.rng.Intn(8)}
		}
		a.Cycles = v.rng.Intn(3) / 2
		v.do(crashApply, "cycle", a)
	}
}

func TestVerifCrash(t *testing.T) {
	v := verifOpen(t, "crash")
	v.run(crashApply, crashGen)
}
