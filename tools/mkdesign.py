#!/usr/bin/env python3
"""Regenerates the 'As built' part of DESIGN.md (between the ASBUILT markers) from docs/asbuilt.md,
the seeded/*/meta.json files, KNOWN_FINDINGS.jsonl and tools/props.py."""
import json, os, re, sys
sys.path.insert(0, "/verif/tools")
from props import PROPS
V = "/verif"

def seed_table():
    rows = []
    for d in sorted(os.listdir(f"{V}/seeded")):
        mp = f"{V}/seeded/{d}/meta.json"
        if not os.path.exists(mp):
            continue
        m = json.load(open(mp))
        det = m.get("detected_by_checks", "?")
        how = m.get("detection", "").replace("|", "/").replace("\n", " ")
        rows.append(f"| `{d}` | {m.get('property')} | {det} | {how} |")
    return "| seeded change | property | detected | by which check, how |\n|---|---|---|---|\n" + "\n".join(rows)

def findings_table():
    rows = []
    for l in open(f"{V}/KNOWN_FINDINGS.jsonl"):
        l = l.strip()
        if not l:
            continue
        e = json.loads(l)
        what = e["what"]
        what = re.sub(r"^fixed: property=\S+ \S+ ", "", what)
        rows.append(f"| {e['property']} | {e['status']} | {e.get('commit', '')} | `{e['signature']}` | {what} |")
    return "| property | status | /repo commit | signature | what failed |\n|---|---|---|---|---|\n" + "\n".join(rows)

def engines_table():
    rows = []
    for pid in sorted(PROPS):
        c = PROPS[pid]
        eng = ", ".join(f"{e['engine']} ({e['pkg']}, quick {e['n_quick']} / thorough {e['n_thorough']})" for e in c["engines"])
        rows.append(f"| {pid} | `{c['lean_props']}` | {eng} | {len(c.get('facts', []))} |")
    return "| property | theorem file | engines (cases per tier) | facts |\n|---|---|---|---|\n" + "\n".join(rows)

text = open(f"{V}/docs/asbuilt.md").read()
text = text.replace("{{SEEDS}}", seed_table()).replace("{{FINDINGS}}", findings_table()).replace("{{ENGINES}}", engines_table())
d = open(f"{V}/DESIGN.md").read()
b, e = "<!-- ASBUILT:BEGIN -->", "<!-- ASBUILT:END -->"
if b in d:
    d = d[:d.index(b) + len(b)] + "\n" + text + "\n" + d[d.index(e):]
else:
    marker = "--------------------------------------------------------------------------\n\n## 0. Summary"
    d = d.replace(marker, b + "\n" + text + "\n" + e + "\n\n" + marker, 1)
open(f"{V}/DESIGN.md", "w").write(d)
print("DESIGN.md as-built section regenerated")
