import Receptor.Model.Crash
import Receptor.Generated.Facts
/-!
# C04 — acknowledged work units survive crash/restart with identity and outcome
-/
namespace Receptor.Crash

/-- **Tie (translator)**: records are rewritten in place (truncate, then write — not replaced atomically);
`scanForUnit`'s steps; what `Restart` does for command units and for remote units; registering a work type
rescans the data directory; a remote unit's ID is stored before its stdin is streamed. -/
theorem C04_facts :
    Receptor.Facts.crash_rewrite_atomic = false
    ∧ Receptor.Facts.crash_scan = "not-a-dir:return;load-ignoring-errors;type-registered:its-worker|unknown-worker;no-status-file:return;load-error:mark-failed;restart-error:mark-failed;register"
    ∧ Receptor.Facts.crash_cmd_restart = "load:err->return;complete:return;pending:mark-failed;monitor"
    ∧ Receptor.Facts.crash_remote_restart = "started:resume|error"
    ∧ Receptor.Facts.crash_remote_bind_order = "store(RemoteUnitID);stream-stdin;store(RemoteStarted)"
    ∧ Receptor.Facts.crash_register_rescans = true := by decide +kernel

/-- every state the disk goes through: the step just taken and the disk after it -/
def scan : Disk → List FsStep → List (FsStep × Disk)
  | _, [] => []
  | d, s :: rest => (s, apply d s) :: scan (apply d s) rest

/-- the record is readable and carries the unit's work type -/
def Intact (wt : Nat) (d : Disk) : Prop := d.dir = true ∧ ∃ r, d.status = .full r ∧ r.wt = wt

/-- the disk after the unit was created (its ID is handed out only after this) -/
def created (r0 : Rec) : Disk := applyAll {} [.mkdir, .truncate, .write r0]

theorem created_intact (r0 : Rec) : Intact r0.wt (created r0) := ⟨rfl, r0, rfl, rfl⟩

theorem scan_inplace (wt : Nat) : ∀ (later : List Rec) (d : Disk), Intact wt d → sameType wt later →
    ∀ x ∈ scan d (later.flatMap (rewrite false)), (x.1 = .truncate ∧ x.2.dir = true ∧ x.2.status = .empty) ∨ Intact wt x.2 := by
  intro later
  induction later with
  | nil => intro d _ _ x hx; simp [scan] at hx
  | cons r rest ih =>
    intro d hd hs x hx
    have hr : r.wt = wt := hs r (by simp)
    have hdir : d.dir = true := hd.1
    simp only [List.flatMap_cons, rewrite, Bool.false_eq_true, if_false, List.cons_append, List.nil_append, scan, List.mem_cons] at hx
    rcases hx with hx | hx | hx
    · left; subst hx; simp [apply, hdir]
    · right; subst hx; exact ⟨by simp [apply, hdir], r, by simp [apply, hdir], hr⟩
    · exact ih _ ⟨by simp [apply, hdir], r, by simp [apply, hdir], hr⟩ (fun y hy => hs y (by simp [hy])) x hx

theorem scan_atomic (wt : Nat) : ∀ (later : List Rec) (d : Disk), Intact wt d → sameType wt later →
    ∀ x ∈ scan d (later.flatMap (rewrite true)), Intact wt x.2 := by
  intro later
  induction later with
  | nil => intro d _ _ x hx; simp [scan] at hx
  | cons r rest ih =>
    intro d hd hs x hx
    have hr : r.wt = wt := hs r (by simp)
    have hdir : d.dir = true := hd.1
    simp only [List.flatMap_cons, rewrite, if_true, List.cons_append, List.nil_append, scan, List.mem_cons] at hx
    rcases hx with hx | hx
    · subst hx; exact ⟨by simp [apply, hdir], r, by simp [apply, hdir], hr⟩
    · exact ih _ ⟨by simp [apply, hdir], r, by simp [apply, hdir], hr⟩ (fun y hy => hs y (by simp [hy])) x hx

theorem view_of_intact (remoteType : Nat) (types : List Nat) (wt : Nat) (d : Disk) (h : Intact wt d) :
    ∃ st sz rm, restartView remoteType types d = .listed wt st sz rm := by
  obtain ⟨hdir, r, hst, hwt⟩ := h
  unfold restartView
  simp only [hdir, hst, Bool.not_true, Bool.false_eq_true, if_false]
  subst hwt
  repeat' split
  all_goals exact ⟨_, _, _, rfl⟩

/-- **survives_crash_outside_rewrite_partial.** With records rewritten in place (what the source does): whenever
the node dies at any point after a unit was created, except between the truncation and the write of a
rewrite, the restarted node lists the unit with its work type.  (*Partial*: the excluded window is real —
see `C04_witness_type_lost_in_window` and the recorded finding.) -/
theorem survives_crash_outside_rewrite_partial (remoteType : Nat) (types : List Nat) (r0 : Rec) (later : List Rec)
    (hs : sameType r0.wt later) (x : FsStep × Disk) (hx : x ∈ scan (created r0) (later.flatMap (rewrite false)))
    (hw : x.1 ≠ .truncate) : ∃ st sz rm, restartView remoteType types x.2 = .listed r0.wt st sz rm := by
  rcases scan_inplace r0.wt later (created r0) (created_intact r0) hs x hx with h | h
  · exact absurd h.1 hw
  · exact view_of_intact remoteType types r0.wt x.2 h

/-- **survives_every_crash_if_atomic.** If records were replaced atomically, this would hold for every crash point. -/
theorem survives_every_crash_if_atomic (remoteType : Nat) (types : List Nat) (r0 : Rec) (later : List Rec)
    (hs : sameType r0.wt later) (x : FsStep × Disk) (hx : x ∈ scan (created r0) (later.flatMap (rewrite true))) :
    ∃ st sz rm, restartView remoteType types x.2 = .listed r0.wt st sz rm :=
  view_of_intact remoteType types r0.wt x.2 (scan_atomic r0.wt later (created r0) (created_intact r0) hs x hx)

/-- **finished_survives.** A unit whose stored record says succeeded or failed is reported with the same state,
output size and binding after a restart. -/
theorem finished_survives (remoteType : Nat) (types : List Nat) (r : Rec) (hc : complete r.state = true) (hn : r.wt ≠ remoteType) :
    restartView remoteType types { dir := true, status := .full r } = .listed r.wt r.state r.size r.remote := by
  unfold restartView
  simp only [Bool.not_true, Bool.false_eq_true, if_false, hn, hc, if_true]
  split <;> rfl

/-- **never_started_is_failed.** A local unit still pending on disk is reported failed, not pending; a remote
unit that had not been started remotely is reported failed; in both cases work type and binding are kept. -/
theorem never_started_is_failed (remoteType : Nat) (types : List Nat) (r : Rec) (ht : types.contains r.wt = true) :
    (r.wt ≠ remoteType → r.state = 0 → restartView remoteType types { dir := true, status := .full r } = .listed r.wt 3 r.size r.remote)
    ∧ (r.wt = remoteType → r.started = false → restartView remoteType types { dir := true, status := .full r } = .listed r.wt 3 r.size r.remote) := by
  constructor
  · intro hn hp
    have hm : r.wt ∈ types := by simpa using ht
    unfold restartView
    simp [hm, hn, hp, complete]
  · intro hr hs
    have hm : r.wt ∈ types := by simpa using ht
    subst hr
    unfold restartView
    simp [hm, hs]

/-- **remote_binding_survives.** A remote unit that had been started is reported with the node it is bound to and its stored state. -/
theorem remote_binding_survives (remoteType : Nat) (types : List Nat) (r : Rec) (ht : types.contains r.wt = true)
    (hr : r.wt = remoteType) (hs : r.started = true) :
    restartView remoteType types { dir := true, status := .full r } = .listed r.wt r.state r.size r.remote := by
  have hm : r.wt ∈ types := by simpa using ht
  subst hr
  unfold restartView
  simp [hm, hs]

/-! ### the binding of a remote unit (what `ackcrash` runs) -/

/-- the record is readable, carries the unit's work type and the binding `b` -/
def Bound (wt : Nat) (b : Option Nat) (d : Disk) : Prop := d.dir = true ∧ ∃ r, d.status = .full r ∧ r.wt = wt ∧ r.remote = b

theorem scan_inplace_bound (wt : Nat) (b : Option Nat) : ∀ (later : List Rec) (d : Disk), Bound wt b d →
    (∀ r ∈ later, r.wt = wt ∧ r.remote = b) →
    ∀ x ∈ scan d (later.flatMap (rewrite false)), (x.1 = .truncate ∧ x.2.dir = true ∧ x.2.status = .empty) ∨ Bound wt b x.2 := by
  intro later
  induction later with
  | nil => intro d _ _ x hx; simp [scan] at hx
  | cons r rest ih =>
    intro d hd hs x hx
    have hr := hs r (by simp)
    have hdir : d.dir = true := hd.1
    simp only [List.flatMap_cons, rewrite, Bool.false_eq_true, if_false, List.cons_append, List.nil_append, scan, List.mem_cons] at hx
    rcases hx with hx | hx | hx
    · left; subst hx; simp [apply, hdir]
    · right; subst hx; exact ⟨by simp [apply, hdir], r, by simp [apply, hdir], hr⟩
    · exact ih _ ⟨by simp [apply, hdir], r, by simp [apply, hdir], hr⟩ (fun y hy => hs y (by simp [hy])) x hx

theorem view_of_bound (remoteType : Nat) (types : List Nat) (wt : Nat) (b : Option Nat) (d : Disk) (h : Bound wt b d) :
    ∃ st sz, restartView remoteType types d = .listed wt st sz b := by
  obtain ⟨hdir, r, hst, hwt, hb⟩ := h
  unfold restartView
  simp only [hdir, hst, Bool.not_true, Bool.false_eq_true, if_false]
  subst hwt hb
  repeat' split
  all_goals exact ⟨_, _, rfl⟩

/-- **binding_survives_crash_after_ack_partial.** From the moment the record carrying a binding `b` (for a remote unit: the
executing node and the remote unit it answered with) is on disk, and whatever rewrites follow that keep work type and
binding — state changes, output sizes, `RemoteStarted` — a node that dies at any point, except between the truncation and
the write of a rewrite, comes back listing the unit with that work type and that binding.  While a remote unit's stdin is
being sent no step touches the record (fact `crash_remote_bind_order`), so every instant of the transfer is such a point.
(*Partial*: same excluded window as `survives_crash_outside_rewrite_partial`.) -/
theorem binding_survives_crash_after_ack_partial (remoteType : Nat) (types : List Nat) (r1 : Rec) (later : List Rec)
    (hs : ∀ r ∈ later, r.wt = r1.wt ∧ r.remote = r1.remote) (x : FsStep × Disk)
    (hx : x ∈ scan { dir := true, status := .full r1 } (later.flatMap (rewrite false))) (hw : x.1 ≠ .truncate) :
    ∃ st sz, restartView remoteType types x.2 = .listed r1.wt st sz r1.remote := by
  rcases scan_inplace_bound r1.wt r1.remote later _ ⟨rfl, r1, rfl, rfl, rfl⟩ hs x hx with h | h
  · exact absurd h.1 hw
  · exact view_of_bound remoteType types r1.wt r1.remote x.2 h

/-- …and at the instants of the stdin transfer themselves (no step since the record with the binding was written) -/
theorem binding_on_disk_during_stdin (remoteType : Nat) (types : List Nat) (r0 r1 : Rec) :
    ∃ st sz, restartView remoteType types (applyAll {} (history false r0 [r1])) = .listed r1.wt st sz r1.remote :=
  view_of_bound remoteType types r1.wt r1.remote _ ⟨rfl, r1, rfl, rfl, rfl⟩

/-- Witness: if the remote unit is stored only with the final rewrite, the node that dies during the transfer comes back
without it -/
theorem C04_witness_binding_lost_without_early_store :
    restartView 1 [1] (applyAll {} (history false { wt := 1, state := 0, size := 0, remote := none } [])) = .listed 1 3 0 none
    ∧ restartView 1 [1] (applyAll {} (history false { wt := 1, state := 0, size := 0, remote := none }
        [{ wt := 1, state := 0, size := 0, remote := some 7 }])) = .listed 1 3 0 (some 7) := by decide

/-- the recorded finding: a crash between the truncation and the write of any rewrite leaves an empty record;
the restarted node lists the unit as failed with *no* work type and *no* remote binding -/
theorem C04_witness_type_lost_in_window :
    ∃ x ∈ scan (created { wt := 7, state := 0, size := 0, remote := some 9 })
        ([{ wt := 7, state := 1, size := 5, remote := some 9, started := true }].flatMap (rewrite false)),
      restartView 7 [7] x.2 = .listed 0 3 0 none := by
  refine ⟨(.truncate, { dir := true, status := .empty }), ?_, ?_⟩
  · decide
  · decide

/-- Non-vacuity: a finished unit after two rewrites, crash after the last write -/
example : restartView 1 [1, 7] (applyAll {} (history false { wt := 7, state := 0, size := 0 } [{ wt := 7, state := 1, size := 3 }, { wt := 7, state := 2, size := 9 }]))
    = .listed 7 2 9 none := by decide


/-- the source's choice (regenerated fact): `findUnit` reads the unit's directory whenever the table does not have the ID -/
def rescanOfFacts : Bool := decide (Receptor.Facts.crash_findunit = "table;miss:scanForUnit-unconditional;table")

theorem rescan_of_source : rescanOfFacts = true := by decide +kernel

theorem rsteps_disk (steps : List RStep) : ∀ r : Reg, (steps.foldl rstep r).disk = r.disk := by
  induction steps with
  | nil => intro r; rfl
  | cons s rest ih =>
    intro r
    simp only [List.foldl_cons]
    rw [ih]
    cases s with
    | drop id => rfl
    | readd id => simp only [rstep]; split <;> rfl

/-- **known_at_every_moment.** At every moment of the re-registration — after any number of units have been taken out of
the table and any number put back — a unit that has a readable record on disk is found. -/
theorem known_at_every_moment (steps : List RStep) (r : Reg) (id : Nat) (h : id ∈ r.disk) :
    findUnit true (steps.foldl rstep r) id = true := by
  have hd := rsteps_disk steps r
  simp only [findUnit, hd, Bool.true_and, Bool.or_eq_true, List.contains_iff_mem]
  exact Or.inr (by simpa using h)

/-- Witness: without the read on a miss, a unit is unknown between being taken out and being put back -/
theorem C04_witness_unknown_during_registration :
    findUnit false ([RStep.drop 7].foldl rstep { active := [7], disk := [7] }) 7 = false
    ∧ findUnit true ([RStep.drop 7].foldl rstep { active := [7], disk := [7] }) 7 = true := by decide


end Receptor.Crash
