package workceptor

// C14 harness: N goroutines (with their own StatusFileData, or sharing one BaseWorkUnit) and M
// operating-system processes (this test binary re-executed) hammer one status file with
// read-modify-write updates, saves and loads, in rounds separated by barriers.  A round may have a
// "holder": an update that parks inside its callback (holding the lock) until every other
// participant of the round has been started, so that contention is real and not a matter of luck.
//
// Every append-update records its own tag in the record (ExtraData.hist), so the stored record
// itself shows in which order the updates were applied.

import (
	"bufio"
	"encoding/json"
	"fmt"
	"os"
	"os/exec"
	"path"
	"sort"
	"strings"
	"sync"
	"sync/atomic"
	"testing"
	"time"
)

type stOp struct {
	K  string `json:"k"` // app | basic | stdout | load | save
	St int    `json:"st"`
	D  string `json:"d"`
	Sz int64  `json:"sz"`
}

type stThread struct {
	Kind   string   `json:"kind"` // go | bwu | proc
	Rounds [][]stOp `json:"rounds"`
}

type stArgs struct {
	Threads     []stThread `json:"threads"`
	Holders     []int      `json:"holders"` // per round: the thread whose first op of the round parks in its callback, or -1
	Loaders     int        `json:"loaders"`
	LoaderProcs int        `json:"loader_procs"`
}

type stRec struct {
	State  int      `json:"state"`
	Detail string   `json:"detail"`
	Size   int64    `json:"size"`
	Hist   []string `json:"hist"`
}

func stRecOf(s *StatusFileData) stRec {
	r := stRec{State: s.State, Detail: s.Detail, Size: s.StdoutSize, Hist: []string{}}
	if ed, ok := s.ExtraData.(map[string]interface{}); ok {
		if h, ok := ed["hist"].([]interface{}); ok {
			for _, e := range h {
				r.Hist = append(r.Hist, fmt.Sprint(e))
			}
		}
	}
	return r
}

func stAppend(status *StatusFileData, tag string, detail string) {
	ed, _ := status.ExtraData.(map[string]interface{})
	if ed == nil {
		ed = map[string]interface{}{}
	}
	h, _ := ed["hist"].([]interface{})
	ed["hist"] = append(append([]interface{}{}, h...), tag)
	status.ExtraData = ed
	if detail != "" {
		status.Detail = detail
	}
}

// stActor performs operations for one thread
type stActor struct {
	kind    string
	file    string
	unitdir string
	sfd     *StatusFileData // go / proc
	bwu     *BaseWorkUnit   // bwu
}

func (a *stActor) do(op stOp, tag string, inCallback func()) (err error) {
	defer func() {
		if p := recover(); p != nil {
			err = fmt.Errorf("panic: %v", p)
		}
	}()
	cb := func(status *StatusFileData) {
		if inCallback != nil {
			inCallback()
		}
		if op.K == "clear" {
			status.ExtraData = nil // what the daemon does when a command's runner has gone
			return
		}
		stAppend(status, tag, op.D)
	}
	if a.kind == "bwu" {
		switch op.K {
		case "app", "clear":
			a.bwu.UpdateFullStatus(cb)
			return a.bwu.LastUpdateError()
		case "basic":
			a.bwu.UpdateBasicStatus(op.St, op.D, op.Sz)
			return a.bwu.LastUpdateError()
		case "stdout":
			return saveStdoutSize(a.unitdir, op.Sz)
		case "load":
			return a.bwu.Load()
		case "save":
			return a.bwu.Save()
		}
		return fmt.Errorf("bad op %s", op.K)
	}
	switch op.K {
	case "app", "clear":
		return a.sfd.UpdateFullStatus(a.file, cb)
	case "basic":
		return a.sfd.UpdateBasicStatus(a.file, op.St, op.D, op.Sz)
	case "stdout":
		return saveStdoutSize(a.unitdir, op.Sz)
	case "load":
		return a.sfd.Load(a.file)
	case "save":
		return a.sfd.Save(a.file)
	}
	return fmt.Errorf("bad op %s", op.K)
}

type stLoadObs struct {
	Err string `json:"err"`
	Rec *stRec `json:"rec"`
}

func stLoadOnce(file string) string {
	s := &StatusFileData{}
	var o stLoadObs
	if err := s.Load(file); err != nil {
		o.Err = err.Error()
	} else {
		r := stRecOf(s)
		o.Rec = &r
	}
	b, _ := json.Marshal(o)
	return string(b)
}

// ---- child process side

type stChildSpec struct {
	Mode    string   `json:"mode"` // thread | loader
	File    string   `json:"file"`
	Unitdir string   `json:"unitdir"`
	Tid     int      `json:"tid"`
	Rounds  [][]stOp `json:"rounds"`
}

// TestVerifStatusChild is the body of a re-executed process: it takes "go <round>" lines on stdin and
// answers on fd 3 with one "o" line per finished operation and a "done <json errors>" line per round
// (loader mode: loads until "stop", then prints the distinct observations).
func TestVerifStatusChild(t *testing.T) {
	specS := os.Getenv("VERIF_STATUS_CHILD")
	if specS == "" {
		t.Skip("not a child")
	}
	var spec stChildSpec
	if err := json.Unmarshal([]byte(specS), &spec); err != nil {
		t.Fatal(err)
	}
	out := os.NewFile(3, "verif-out")
	in := bufio.NewReader(os.Stdin)
	if spec.Mode == "loader" {
		var stop int32
		obs := map[string]int{}
		done := make(chan struct{})
		go func() {
			defer close(done)
			for atomic.LoadInt32(&stop) == 0 {
				obs[stLoadOnce(spec.File)]++
			}
		}()
		fmt.Fprintln(out, "ready")
		_, _ = in.ReadString('\n')
		atomic.StoreInt32(&stop, 1)
		<-done
		b, _ := json.Marshal(obs)
		fmt.Fprintf(out, "obs %s\n", b)
		return
	}
	a := &stActor{kind: "proc", file: spec.File, unitdir: spec.Unitdir, sfd: &StatusFileData{}}
	fmt.Fprintln(out, "ready")
	for {
		line, err := in.ReadString('\n')
		if err != nil {
			return
		}
		var r int
		if _, err := fmt.Sscanf(line, "go %d", &r); err != nil {
			return
		}
		errs := []string{}
		for i, op := range spec.Rounds[r] {
			if err := a.do(op, fmt.Sprintf("%d:%d:%d", r, spec.Tid, i), nil); err != nil {
				errs = append(errs, fmt.Sprintf("%d:%d:%d:%s", r, spec.Tid, i, err))
			}
			fmt.Fprintln(out, "o")
		}
		b, _ := json.Marshal(errs)
		fmt.Fprintf(out, "done %s\n", b)
	}
}

type stChild struct {
	cmd   *exec.Cmd
	stdin *os.File
	lines chan string
}

func stSpawn(spec stChildSpec) (*stChild, error) {
	b, _ := json.Marshal(spec)
	cmd := exec.Command(os.Args[0], "-test.run", "^TestVerifStatusChild$", "-test.count=1", "-test.timeout=120s")
	cmd.Env = append(os.Environ(), "VERIF_STATUS_CHILD="+string(b))
	inR, inW, err := os.Pipe()
	if err != nil {
		return nil, err
	}
	outR, outW, err := os.Pipe()
	if err != nil {
		return nil, err
	}
	cmd.Stdin = inR
	cmd.ExtraFiles = []*os.File{outW}
	if err := cmd.Start(); err != nil {
		return nil, err
	}
	inR.Close()
	outW.Close()
	c := &stChild{cmd: cmd, stdin: inW, lines: make(chan string, 4096)}
	go func() {
		sc := bufio.NewScanner(outR)
		sc.Buffer(make([]byte, 1<<20), 1<<26)
		for sc.Scan() {
			c.lines <- sc.Text()
		}
		close(c.lines)
		outR.Close()
	}()
	select {
	case l := <-c.lines:
		if l != "ready" {
			return nil, fmt.Errorf("child said %q", l)
		}
	case <-time.After(30 * time.Second):
		_ = cmd.Process.Kill()
		return nil, fmt.Errorf("child did not start")
	}
	return c, nil
}

func (c *stChild) stop() {
	c.stdin.Close()
	done := make(chan struct{})
	go func() { _ = c.cmd.Wait(); close(done) }()
	select {
	case <-done:
	case <-time.After(10 * time.Second):
		_ = c.cmd.Process.Kill()
		<-done
	}
}

// ---- the scenario

// stScanLock: a unit that exists on disk only, whose lock file another process has open (a detached runner); the node
// looks the unit up (findUnit → scanForUnit → Load / Restart).  The lock of a record is the lock *file*: afterwards the
// path must still name the very file the other process holds, or the two no longer exclude each other.
func stScanLock() interface{} {
	dir, err := os.MkdirTemp("", "verif-status-*")
	if err != nil {
		panic(err)
	}
	defer os.RemoveAll(dir)
	vw := verifNewWorld(dir)
	defer vw.close()
	_ = vw.w.RegisterWorker("verif", verifNewUnit, false)
	unitdir := path.Join(vw.w.dataDir, "ondisk01")
	if err := os.MkdirAll(unitdir, 0o700); err != nil {
		panic(err)
	}
	sfd := &StatusFileData{State: WorkStateRunning, Detail: "Running: PID 1", WorkType: "verif"}
	if err := sfd.Save(path.Join(unitdir, "status")); err != nil {
		return map[string]interface{}{"error": err.Error()}
	}
	held, err := os.Open(path.Join(unitdir, "status.lock"))
	if err != nil {
		return map[string]interface{}{"error": "the record has no lock file: " + err.Error()}
	}
	defer held.Close()
	before, _ := held.Stat()
	_, uerr := vw.w.UnitStatus("ondisk01")
	after, serr := os.Stat(path.Join(unitdir, "status.lock"))
	return map[string]interface{}{"known": uerr == nil, "same_lock_file": serr == nil && os.SameFile(before, after)}
}

func stApply(op string, raw json.RawMessage) interface{} {
	if op == "scanlock" {
		return stScanLock()
	}
	if op != "run" {
		return map[string]interface{}{"error": "bad op"}
	}
	var a stArgs
	if err := json.Unmarshal(raw, &a); err != nil {
		panic(err)
	}
	dir, err := os.MkdirTemp("", "verif-status-*")
	if err != nil {
		panic(err)
	}
	defer os.RemoveAll(dir)
	vw := verifNewWorld(dir)
	defer vw.close()
	// the unit is created the way AllocateUnit does it: Init + Save
	bwu := &BaseWorkUnit{}
	bwu.Init(vw.w, "unit", "verif", FileSystem{}, nil)
	unitdir := bwu.UnitDir()
	if err := os.MkdirAll(unitdir, 0o700); err != nil {
		panic(err)
	}
	file := path.Join(unitdir, "status")
	if bwu.watcher != nil {
		_ = bwu.watcher.Close()
	}
	if err := bwu.Save(); err != nil {
		return map[string]interface{}{"error": "initial save: " + err.Error()}
	}
	nRounds := len(a.Holders)
	actors := make([]*stActor, len(a.Threads))
	children := make([]*stChild, len(a.Threads))
	for t, th := range a.Threads {
		switch th.Kind {
		case "go":
			actors[t] = &stActor{kind: "go", file: file, unitdir: unitdir, sfd: &StatusFileData{}}
		case "bwu":
			actors[t] = &stActor{kind: "bwu", file: file, unitdir: unitdir, bwu: bwu}
		case "proc":
			c, err := stSpawn(stChildSpec{Mode: "thread", File: file, Unitdir: unitdir, Tid: t, Rounds: th.Rounds})
			if err != nil {
				return map[string]interface{}{"error": "spawn: " + err.Error()}
			}
			children[t] = c
			defer c.stop()
		}
	}
	// loaders
	var stopLoad int32
	var lwg sync.WaitGroup
	var lmu sync.Mutex
	obs := map[string]int{}
	for l := 0; l < a.Loaders; l++ {
		lwg.Add(1)
		go func() {
			defer lwg.Done()
			mine := map[string]int{}
			for atomic.LoadInt32(&stopLoad) == 0 {
				mine[stLoadOnce(file)]++
			}
			lmu.Lock()
			for k, v := range mine {
				obs[k] += v
			}
			lmu.Unlock()
		}()
	}
	var loaderProcs []*stChild
	for l := 0; l < a.LoaderProcs; l++ {
		c, err := stSpawn(stChildSpec{Mode: "loader", File: file, Unitdir: unitdir})
		if err != nil {
			return map[string]interface{}{"error": "spawn loader: " + err.Error()}
		}
		loaderProcs = append(loaderProcs, c)
	}

	var emu sync.Mutex
	errs := []string{}
	addErr := func(s string) { emu.Lock(); errs = append(errs, s); emu.Unlock() }
	overlap := 0
	for r := 0; r < nRounds; r++ {
		var completed int32
		var wg sync.WaitGroup
		holder := a.Holders[r]
		inside := make(chan struct{})
		release := make(chan struct{})
		runThread := func(t int, asHolder bool) {
			th := a.Threads[t]
			if r >= len(th.Rounds) || len(th.Rounds[r]) == 0 {
				if asHolder {
					close(inside)
				}
				return
			}
			if th.Kind == "proc" {
				wg.Add(1)
				go func() {
					defer wg.Done()
					c := children[t]
					fmt.Fprintf(c.stdin, "go %d\n", r)
					for l := range c.lines {
						if l == "o" {
							atomic.AddInt32(&completed, 1)
							continue
						}
						if strings.HasPrefix(l, "done ") {
							var es []string
							_ = json.Unmarshal([]byte(l[5:]), &es)
							for _, e := range es {
								addErr(e)
							}
							return
						}
					}
					addErr(fmt.Sprintf("%d:%d:child died", r, t))
				}()
				return
			}
			wg.Add(1)
			go func() {
				defer wg.Done()
				for i, op := range th.Rounds[r] {
					var cb func()
					if asHolder && i == 0 {
						cb = func() { close(inside); <-release }
					}
					if err := actors[t].do(op, fmt.Sprintf("%d:%d:%d", r, t, i), cb); err != nil {
						addErr(fmt.Sprintf("%d:%d:%d:%s", r, t, i, err))
						if asHolder && i == 0 {
							select {
							case <-inside:
							default:
								close(inside)
							}
						}
					}
					if !(asHolder && i == 0) {
						atomic.AddInt32(&completed, 1)
					}
				}
			}()
		}
		if holder >= 0 {
			runThread(holder, true)
			select {
			case <-inside:
			case <-time.After(20 * time.Second):
				addErr(fmt.Sprintf("%d:holder never entered its callback", r))
			}
		}
		for t := range a.Threads {
			if t != holder {
				runThread(t, false)
			}
		}
		if holder >= 0 {
			time.Sleep(30 * time.Millisecond)
			// nobody may have completed an operation on the file while the holder is inside
			overlap += int(atomic.LoadInt32(&completed))
			close(release)
		}
		okc := make(chan struct{})
		go func() { wg.Wait(); close(okc) }()
		select {
		case <-okc:
		case <-time.After(60 * time.Second):
			addErr(fmt.Sprintf("%d:round did not finish", r))
			return map[string]interface{}{"hang": true}
		}
	}
	atomic.StoreInt32(&stopLoad, 1)
	lwg.Wait()
	for _, c := range loaderProcs {
		fmt.Fprintln(c.stdin, "stop")
		select {
		case l := <-c.lines:
			if strings.HasPrefix(l, "obs ") {
				var m map[string]int
				_ = json.Unmarshal([]byte(l[4:]), &m)
				for k, v := range m {
					obs[k] += v
				}
			}
		case <-time.After(20 * time.Second):
			addErr("loader process did not answer")
		}
		c.stop()
	}
	// final record
	res := map[string]interface{}{}
	fs := &StatusFileData{}
	if err := fs.Load(file); err != nil {
		res["final_err"] = err.Error()
		res["final"] = nil
	} else {
		res["final_err"] = ""
		res["final"] = stRecOf(fs)
	}
	sort.Strings(errs)
	res["errs"] = errs
	res["overlap"] = overlap
	// distinct observations of the loaders
	keys := make([]string, 0, len(obs))
	n := 0
	for k, v := range obs {
		keys = append(keys, k)
		n += v
	}
	sort.Strings(keys)
	loads := make([]json.RawMessage, 0, len(keys))
	for _, k := range keys {
		loads = append(loads, json.RawMessage(k))
	}
	res["loads"] = loads
	res["nontrivial"] = n > 0 || len(a.Threads) > 1
	return res
}

func stGen(v *verifRun) {
	thorough := v.tier == "thorough"
	for i := 0; i < v.n; i++ {
		var a stArgs
		nGo := 1 + v.rng.Intn(3)
		nBwu := v.rng.Intn(3)
		nProc := v.rng.Intn(2)
		if thorough {
			nGo += v.rng.Intn(3)
			nProc += v.rng.Intn(3)
		} else if i%3 != 0 {
			nProc = 0
		}
		for k := 0; k < nGo; k++ {
			a.Threads = append(a.Threads, stThread{Kind: "go"})
		}
		for k := 0; k < nBwu; k++ {
			a.Threads = append(a.Threads, stThread{Kind: "bwu"})
		}
		for k := 0; k < nProc; k++ {
			a.Threads = append(a.Threads, stThread{Kind: "proc"})
		}
		v.rng.Shuffle(len(a.Threads), func(x, y int) { a.Threads[x], a.Threads[y] = a.Threads[y], a.Threads[x] })
		nT := len(a.Threads)
		a.Loaders = 1 + v.rng.Intn(3)
		if nProc > 0 || thorough {
			a.LoaderProcs = v.rng.Intn(2)
		}
		pad := func() string { return strings.Repeat("x", []int{0, 0, 3, 40, 300, 900}[v.rng.Intn(6)]) }
		inProc := func() []int {
			var l []int
			for t, th := range a.Threads {
				if th.Kind != "proc" {
					l = append(l, t)
				}
			}
			return l
		}()
		addRound := func(holder int, ops map[int][]stOp) {
			for t := range a.Threads {
				o := ops[t]
				if o == nil {
					o = []stOp{}
				}
				a.Threads[t].Rounds = append(a.Threads[t].Rounds, o)
			}
			a.Holders = append(a.Holders, holder)
		}
		rounds := 2 + v.rng.Intn(4)
		seq := 0
		if nT >= 2 && v.rng.Intn(3) == 0 {
			// a writer that is used again after somebody else emptied the extra data: what it re-reads must replace what it holds
			wa := v.rng.Intn(nT)
			wb := v.rng.Intn(nT)
			for wb == wa {
				wb = v.rng.Intn(nT)
			}
			addRound(-1, map[int][]stOp{wa: {{K: "app"}}})
			addRound(-1, map[int][]stOp{wb: {{K: "clear"}}})
			addRound(-1, map[int][]stOp{wa: {{K: "basic", St: 1, D: "after-clear", Sz: 3}}})
		}
		for r := 0; r < rounds; r++ {
			switch k := v.rng.Intn(10); {
			case k < 6: // mixed: appends everywhere, one scalar writer, optional holder
				ops := map[int][]stOp{}
				for t := 0; t < nT; t++ {
					for n := v.rng.Intn(4); n > 0; n-- {
						ops[t] = append(ops[t], stOp{K: "app"})
					}
					if v.rng.Intn(5) == 0 {
						ops[t] = append(ops[t], stOp{K: "load"})
						v.rng.Shuffle(len(ops[t]), func(x, y int) { ops[t][x], ops[t][y] = ops[t][y], ops[t][x] })
					}
				}
				sw := v.rng.Intn(nT)
				for n := 1 + v.rng.Intn(2); n > 0; n-- {
					seq++
					var o stOp
					switch v.rng.Intn(4) {
					case 0:
						o = stOp{K: "stdout", Sz: int64(seq * 10)}
					case 1:
						o = stOp{K: "basic", St: v.rng.Intn(5), D: fmt.Sprintf("d%d%s", seq, pad()), Sz: -1}
					case 2:
						// a value this writer may already hold in memory: the same state as some earlier update
						o = stOp{K: "basic", St: 1, D: "same", Sz: 7}
					default:
						o = stOp{K: "basic", St: v.rng.Intn(5), D: fmt.Sprintf("d%d%s", seq, pad()), Sz: int64(seq * 10)}
					}
					pos := v.rng.Intn(len(ops[sw]) + 1)
					ops[sw] = append(ops[sw][:pos], append([]stOp{o}, ops[sw][pos:]...)...)
				}
				holder := -1
				if v.rng.Intn(2) == 0 {
					h := inProc[v.rng.Intn(len(inProc))]
					if len(ops[h]) > 0 && ops[h][0].K == "app" {
						holder = h
					} else {
						ops[h] = append([]stOp{{K: "app"}}, ops[h]...)
						holder = h
					}
				}
				addRound(holder, ops)
			case k == 6 && nT >= 2: // a writer repeats the values it wrote last, after somebody else changed them
				wa := v.rng.Intn(nT)
				wb := v.rng.Intn(nT)
				for wb == wa {
					wb = v.rng.Intn(nT)
				}
				seq++
				x := stOp{K: "basic", St: 1 + v.rng.Intn(4), D: fmt.Sprintf("again%d", seq), Sz: []int64{-1, 7, int64(seq)}[v.rng.Intn(3)]}
				y := stOp{K: "basic", St: 0, D: fmt.Sprintf("other%d%s", seq, pad()), Sz: int64(seq * 10)}
				others := func() map[int][]stOp {
					ops := map[int][]stOp{}
					for t := 0; t < nT; t++ {
						if t != wa && t != wb && v.rng.Intn(2) == 0 {
							ops[t] = []stOp{{K: "app"}}
						}
					}
					return ops
				}
				o1 := others()
				o1[wa] = []stOp{x}
				addRound(-1, o1)
				o2 := others()
				o2[wb] = []stOp{y}
				addRound(-1, o2)
				o3 := others()
				o3[wa] = []stOp{x}
				addRound(-1, o3)
			case k < 8: // a save issued while an update holds the lock (the saver read the record in a quiet round)
				if nT < 2 {
					r--
					continue
				}
				h := inProc[v.rng.Intn(len(inProc))]
				s := v.rng.Intn(nT)
				for s == h {
					s = v.rng.Intn(nT)
				}
				addRound(-1, map[int][]stOp{s: {{K: "load"}}})
				addRound(h, map[int][]stOp{h: {{K: "app", D: "held" + pad()}}, s: {{K: "save"}}})
			default: // repeated saves of the current record while the loaders read
				s := v.rng.Intn(nT)
				ops := []stOp{{K: "load"}}
				for n := 1 + v.rng.Intn(6); n > 0; n-- {
					ops = append(ops, stOp{K: "save"})
				}
				addRound(-1, map[int][]stOp{s: ops})
			}
		}
		v.do(stApply, "run", a)
	}
}

func stGenAll(v *verifRun) {
	stGen(v)
	v.do(stApply, "scanlock", map[string]interface{}{})
}

func TestVerifStatus(t *testing.T) {
	v := verifOpen(t, "status")
	v.run(stApply, stGenAll)
}
