#!/bin/bash
# baseline.sh: run ansible/receptor's own test suite on /repo's working tree (the command of /root/.vp/BASELINE.json)
# and report which of the stable-pass tests did not pass.
export GOFLAGS=-mod=mod GOPROXY=off GOSUMDB=off GOTOOLCHAIN=local
OUT=${1:-/tmp/baseline_run.json}
(cd /repo && go test -mod=mod -json -vet=off -count=1 -timeout 25m ./... > $OUT 2>/dev/null)
python3 - "$OUT" <<'PY'
import json,sys
stable=set(json.load(open('/root/.vp/BASELINE.json'))['stable_pass'])
res={}
for l in open(sys.argv[1]):
    try: e=json.loads(l)
    except Exception: continue
    if e.get('Test') and e.get('Action') in ('pass','fail','skip'):
        res[e['Package']+'::'+e['Test']]=e['Action']
bad=[t for t in sorted(stable) if res.get(t)!='pass']
print(f"stable-pass tests: {len(stable)}; passed now: {len(stable)-len(bad)}; not passed: {len(bad)}")
for t in bad[:40]: print("  ", t, res.get(t))
PY
