package workceptor

// C05 harness (remote part): two real nodes — A submits a remote unit, B runs it — joined by an
// in-memory link the harness can cut and restore.  B's unit is played by the harness (it appends to the
// unit's stdout file and rewrites its status on a script).  While A mirrors status and output
// (monitorRemoteStatus / monitorRemoteStdout over `work status` / `work results` sessions on B's control
// service), the link is cut and restored; A's local copy of the output must at every moment be a prefix of
// B's output and become equal to it.

import (
	"encoding/pem"
	"crypto/x509"
	"context"
	"encoding/json"
	"fmt"
	"io"
	"os"
	"path"
	"sync"
	"sync/atomic"
	"testing"
	"time"

	"github.com/ansible/receptor/pkg/controlsvc"
	"github.com/ansible/receptor/pkg/netceptor"
)

// ---- a link that can be cut; sessions are re-established while it is up

type mirEnd struct {
	side   int // which node sends through this end
	in     chan []byte
	peer   *mirEnd
	hub    *mirHub
	closed chan struct{}
	once   sync.Once
}

func (e *mirEnd) Send(p []byte) error {
	select {
	case <-e.closed:
		return fmt.Errorf("session closed")
	default:
	}
	if atomic.LoadInt32(&e.hub.cut) != 0 {
		return nil
	}
	b := append([]byte{}, p...)
	if e.side == 1 && len(p) < 600 && atomic.LoadInt32(&e.hub.lateSmall) != 0 {
		go func() {
			time.Sleep(350 * time.Millisecond)
			select {
			case e.peer.in <- b:
			case <-e.peer.closed:
			default:
			}
		}()
		return nil
	}
	select {
	case e.peer.in <- b:
	case <-e.peer.closed:
	default:
	}
	return nil
}

func (e *mirEnd) Recv(timeout time.Duration) ([]byte, error) {
	select {
	case b := <-e.in:
		return b, nil
	case <-e.closed:
		return nil, io.EOF
	case <-time.After(timeout):
		return nil, netceptor.ErrTimeout
	}
}

func (e *mirEnd) Close() error {
	e.once.Do(func() { close(e.closed) })
	_ = e.peer.closeQuiet()
	return nil
}

func (e *mirEnd) closeQuiet() error {
	e.once.Do(func() { close(e.closed) })
	return nil
}

// mirHub pairs the two sides: whenever both ask for a session and the link is up, each gets one end of a fresh pair
type mirHub struct {
	cut  int32
	// short datagrams from the executing node (side 1) arrive 350 ms late, long ones at once: a reply line and the
	// data that follows it, sent a quarter of a second apart, then become readable together
	lateSmall int32
	mu   sync.Mutex
	wait [2]chan *mirEnd
}

type mirBackend struct {
	hub  *mirHub
	side int
}

func (b *mirBackend) Start(ctx context.Context, _ *sync.WaitGroup) (chan netceptor.BackendSession, error) {
	ch := make(chan netceptor.BackendSession)
	go func() {
		defer close(ch)
		for {
			if ctx.Err() != nil {
				return
			}
			if atomic.LoadInt32(&b.hub.cut) != 0 {
				time.Sleep(50 * time.Millisecond)
				continue
			}
			e := b.hub.join(b.side, ctx)
			if e == nil {
				return
			}
			select {
			case ch <- e:
			case <-ctx.Done():
				return
			}
			select {
			case <-e.closed:
			case <-ctx.Done():
				_ = e.Close()
				return
			}
			time.Sleep(100 * time.Millisecond)
		}
	}()
	return ch, nil
}

func (h *mirHub) join(side int, ctx context.Context) *mirEnd {
	h.mu.Lock()
	other := 1 - side
	if h.wait[other] != nil {
		// the other side is waiting: make the pair
		a := &mirEnd{side: side, in: make(chan []byte, 8192), hub: h, closed: make(chan struct{})}
		b := &mirEnd{side: other, in: make(chan []byte, 8192), hub: h, closed: make(chan struct{})}
		a.peer, b.peer = b, a
		w := h.wait[other]
		h.wait[other] = nil
		h.mu.Unlock()
		w <- b
		return a
	}
	w := make(chan *mirEnd, 1)
	h.wait[side] = w
	h.mu.Unlock()
	select {
	case e := <-w:
		return e
	case <-ctx.Done():
		h.mu.Lock()
		if h.wait[side] == w {
			h.wait[side] = nil
		}
		h.mu.Unlock()
		return nil
	}
}

// ---- the unit on B: output produced by the harness

type mirUnit struct {
	BaseWorkUnit
}

func (u *mirUnit) Start() error   { u.UpdateBasicStatus(WorkStateRunning, "Running", 0); return nil }
func (u *mirUnit) Restart() error { return nil }
func (u *mirUnit) Cancel() error  { return nil }

func mirNewUnit(_ BaseWorkUnitForWorkUnit, w *Workceptor, unitID string, workType string) WorkUnit {
	u := &mirUnit{}
	u.BaseWorkUnit.Init(w, unitID, workType, FileSystem{}, nil)
	return u
}

type mirEv struct {
	K string `json:"k"` // append | record | finish | sleep | cut | restore
	N int    `json:"n"`
}

type mirArgs struct {
	Events []mirEv `json:"events"`
	// after the local copy is complete: the link goes down, the submitting node is stopped and started again on
	// its data directory; the unit must still report its final state and size and hand out its complete output
	RestartA bool `json:"restart_a"`
	// "" : the link is down at the restart and the copy is complete.  "shortcopy": the node died after it had
	// recorded the final status but before its copy of the output was complete (the two are written by separate
	// monitors); the link stays up and the restarted node has to complete the copy
	RestartMode string `json:"restart_mode"`
	// the work is signed: the submitting node signs every request to the executing node with a token that is good for
	// four seconds; the executing node verifies.  An outage longer than that must not stop the copy for good.
	Signed bool `json:"signed"`
}

func mirByte(i int64) byte { return byte((i*13 + i/253) % 256) }

func mirApply(op string, raw json.RawMessage) interface{} {
	if op == "ackcrash" {
		return mirAckCrash(raw)
	}
	var a mirArgs
	if err := json.Unmarshal(raw, &a); err != nil {
		panic(err)
	}
	oldIdle := netceptor.MaxIdleTimeoutForQuicConnections
	netceptor.MaxIdleTimeoutForQuicConnections = 1500 * time.Millisecond
	defer func() { netceptor.MaxIdleTimeoutForQuicConnections = oldIdle }()
	dir, err := os.MkdirTemp("", "verif-mirror-*")
	if err != nil {
		panic(err)
	}
	defer os.RemoveAll(dir)
	ctx, cancel := context.WithCancel(context.Background())
	defer cancel()
	mk := func(id string) *netceptor.Netceptor {
		s := netceptor.NewWithConsts(ctx, id, 1200, 200*time.Millisecond, 200*time.Millisecond, time.Hour, 30, 1200*time.Millisecond)
		s.Logger.SetOutput(verifDiscardW{})
		return s
	}
	nA, nB := mk("mirA"), mk("mirB")
	defer nA.Shutdown()
	defer nB.Shutdown()
	hub := &mirHub{}
	if err := nA.AddBackend(&mirBackend{hub: hub, side: 0}); err != nil {
		return map[string]interface{}{"error": err.Error()}
	}
	if err := nB.AddBackend(&mirBackend{hub: hub, side: 1}); err != nil {
		return map[string]interface{}{"error": err.Error()}
	}
	ctxA, cancelA := context.WithCancel(ctx)
	defer cancelA()
	wA, err := New(ctxA, nA, path.Join(dir, "a"))
	if err != nil {
		return map[string]interface{}{"error": err.Error()}
	}
	wB, err := New(ctx, nB, path.Join(dir, "b"))
	if err != nil {
		return map[string]interface{}{"error": err.Error()}
	}
	MainInstance = wA
	if a.Signed {
		sigSetup()
		privFile := path.Join(dir, "sign.pem")
		_ = os.WriteFile(privFile, pem.EncodeToMemory(&pem.Block{Type: "RSA PRIVATE KEY", Bytes: x509.MarshalPKCS1PrivateKey(sigKey)}), 0o600)
		wA.SigningKey, wA.SigningExpiration = privFile, 4*time.Second
		wB.VerifyingKey = sigPubFile
	}
	if err := wB.RegisterWorker("prod", mirNewUnit, a.Signed); err != nil {
		return map[string]interface{}{"error": err.Error()}
	}
	csB := controlsvc.New(true, nB)
	if err := wB.RegisterWithControlService(csB); err != nil {
		return map[string]interface{}{"error": err.Error()}
	}
	if err := csB.RunControlSvc(ctx, "control", nil, "", 0, "", nil); err != nil {
		return map[string]interface{}{"error": "control service: " + err.Error()}
	}
	// route
	dl := time.Now().Add(15 * time.Second)
	for time.Now().Before(dl) {
		if _, ok := nA.Status().RoutingTable["mirB"]; ok {
			break
		}
		time.Sleep(20 * time.Millisecond)
	}
	// A submits the remote unit
	t := &workceptorCommandType{w: wA}
	submitCfg := map[string]interface{}{"command": "work", "subcommand": "submit", "node": "mirB", "worktype": "prod"}
	if a.Signed {
		submitCfg["signwork"] = "true"
	}
	cmd, err := t.InitFromJSON(submitCfg)
	if err != nil {
		return map[string]interface{}{"error": err.Error()}
	}
	cfo := &verifCFO{network: "unix", stdin: "input"}
	res, err := cmd.ControlFunc(ctx, nA, cfo)
	if err != nil {
		return map[string]interface{}{"error": "submit: " + err.Error()}
	}
	localID, _ := res["unitid"].(string)
	// B's unit appears once A has started it remotely
	var remoteID string
	dl = time.Now().Add(15 * time.Second)
	for time.Now().Before(dl) && remoteID == "" {
		for _, id := range wB.ListKnownUnitIDs() {
			remoteID = id
		}
		time.Sleep(20 * time.Millisecond)
	}
	if remoteID == "" {
		return map[string]interface{}{"error": "the remote unit was never created"}
	}
	bUnit, err := wB.findUnit(remoteID)
	if err != nil {
		return map[string]interface{}{"error": err.Error()}
	}
	bOut := path.Join(bUnit.UnitDir(), "stdout")
	aOut := path.Join(wA.dataDir, localID, "stdout")
	// the watcher: A's copy must always be a prefix of what B has produced
	var written int64
	var stop int32
	notPrefix := ""
	var wmu sync.Mutex
	var wg sync.WaitGroup
	wg.Add(1)
	go func() {
		defer wg.Done()
		for atomic.LoadInt32(&stop) == 0 {
			b, err := os.ReadFile(aOut)
			if err == nil {
				wmu.Lock()
				if notPrefix == "" {
					for i, c := range b {
						if c != mirByte(int64(i)) {
							notPrefix = fmt.Sprintf("local output differs from the remote output at byte %d (local size %d)", i, len(b))
							break
						}
					}
				}
				wmu.Unlock()
			}
			time.Sleep(15 * time.Millisecond)
		}
	}()
	finished := false
	for _, ev := range a.Events {
		switch ev.K {
		case "append":
			f, err := os.OpenFile(bOut, os.O_CREATE|os.O_APPEND|os.O_WRONLY, 0o600)
			if err == nil {
				b := make([]byte, ev.N)
				w := atomic.LoadInt64(&written)
				for i := range b {
					b[i] = mirByte(w + int64(i))
				}
				_, _ = f.Write(b)
				f.Close()
				atomic.AddInt64(&written, int64(ev.N))
			}
		case "record":
			bUnit.UpdateBasicStatus(WorkStateRunning, "Running", atomic.LoadInt64(&written))
		case "finish":
			bUnit.UpdateBasicStatus(WorkStateSucceeded, "done", atomic.LoadInt64(&written))
			finished = true
		case "sleep":
			time.Sleep(time.Duration(ev.N) * time.Millisecond)
		case "cut":
			atomic.StoreInt32(&hub.cut, 1)
		case "restore":
			atomic.StoreInt32(&hub.cut, 0)
		case "latesmall":
			atomic.StoreInt32(&hub.lateSmall, 1)
		}
	}
	atomic.StoreInt32(&hub.cut, 0)
	if !finished {
		bUnit.UpdateBasicStatus(WorkStateSucceeded, "done", atomic.LoadInt64(&written))
	}
	// A must catch up: state complete and the whole output
	total := atomic.LoadInt64(&written)
	caught := false
	aState, aSize := -1, int64(-1)
	dl = time.Now().Add(90 * time.Second)
	for time.Now().Before(dl) {
		s := &StatusFileData{}
		if err := s.Load(path.Join(wA.dataDir, localID, "status")); err == nil {
			aState, aSize = s.State, s.StdoutSize
		}
		fi, err := os.Stat(aOut)
		if err == nil && fi.Size() >= total && aState == WorkStateSucceeded {
			caught = true
			break
		}
		time.Sleep(50 * time.Millisecond)
	}
	time.Sleep(100 * time.Millisecond)
	atomic.StoreInt32(&stop, 1)
	wg.Wait()
	localLen := int64(-1)
	equal := false
	if b, err := os.ReadFile(aOut); err == nil {
		localLen = int64(len(b))
		equal = localLen == total
		for i, c := range b {
			if c != mirByte(int64(i)) {
				equal = false
			}
		}
	}
	out := map[string]interface{}{"total": total, "local_len": localLen, "equal": equal, "caught_up": caught,
		"not_prefix": notPrefix, "local_state": aState, "local_size": aSize, "nontrivial": true}
	if a.RestartA && caught {
		if a.RestartMode != "shortcopy" {
			atomic.StoreInt32(&hub.cut, 1)
		}
		cancelA()
		time.Sleep(300 * time.Millisecond)
		if a.RestartMode == "shortcopy" && total >= 3 {
			_ = os.Truncate(aOut, total/3)
		}
		wA2, err := New(ctx, nA, path.Join(dir, "a"))
		if err != nil {
			return map[string]interface{}{"error": "restart: " + err.Error()}
		}
		MainInstance = wA2
		ids := wA2.ListKnownUnitIDs() // the node looks at its data directory
		time.Sleep(1500 * time.Millisecond)
		if a.RestartMode == "shortcopy" {
			dl := time.Now().Add(12 * time.Second)
			for time.Now().Before(dl) {
				if fi, err := os.Stat(aOut); err == nil && fi.Size() >= total {
					break
				}
				time.Sleep(100 * time.Millisecond)
			}
		}
		after := map[string]interface{}{"listed": false, "wt": "", "node": "", "remote_unit": false, "state": -1, "size": int64(-1), "local_len": int64(-1), "equal": false, "results_len": -1}
		for _, id := range ids {
			if id == localID {
				after["listed"] = true
			}
		}
		if st, err := wA2.UnitStatus(localID); err == nil {
			after["state"], after["size"], after["wt"] = st.State, st.StdoutSize, st.WorkType
			if red, ok := st.ExtraData.(*RemoteExtraData); ok && red != nil {
				after["node"], after["remote_unit"] = red.RemoteNode, red.RemoteUnitID == remoteID
			}
		}
		if b, err := os.ReadFile(aOut); err == nil {
			after["local_len"] = int64(len(b))
			eq := int64(len(b)) == total
			for i, c := range b {
				if c != mirByte(int64(i)) {
					eq = false
				}
			}
			after["equal"] = eq
		}
		rctx, rcancel := context.WithTimeout(ctx, 3*time.Second)
		if ch, err := wA2.GetResults(rctx, localID, 0); err == nil {
			n := 0
			for b := range ch {
				n += len(b)
			}
			after["results_len"] = n
		}
		rcancel()
		out["after_restart"] = after
	}
	return out
}

func mirGen(v *verifRun) {
	for i := 0; i < v.n; i++ {
		var a mirArgs
		chunks := 3 + v.rng.Intn(4)
		cuts := 1 + v.rng.Intn(2)
		if i%3 == 2 {
			cuts = 0
		}
		cutAt := map[int]bool{}
		for c := 0; c < cuts; c++ {
			cutAt[1+v.rng.Intn(chunks-1)] = true
		}
		for c := 0; c < chunks; c++ {
			a.Events = append(a.Events, mirEv{K: "append", N: []int{1, 500, 4000, 70000, 150000}[v.rng.Intn(5)]}, mirEv{K: "record"})
			if cutAt[c] {
				// cut while output is being mirrored: give the mirror a moment to start copying, then cut
				a.Events = append(a.Events, mirEv{K: "sleep", N: 900 + v.rng.Intn(600)}, mirEv{K: "append", N: 150000}, mirEv{K: "record"},
					mirEv{K: "sleep", N: v.rng.Intn(40)}, mirEv{K: "cut"}, mirEv{K: "append", N: 3000}, mirEv{K: "record"},
					mirEv{K: "sleep", N: 2500 + v.rng.Intn(1500)}, mirEv{K: "restore"})
			} else {
				a.Events = append(a.Events, mirEv{K: "sleep", N: 100 + v.rng.Intn(900)})
			}
		}
		a.Events = append(a.Events, mirEv{K: "finish"})
		v.do(mirApply, "mirror", a)
	}
	// signed work and an outage longer than a token's lifetime while output is being copied
	for i := 0; i < 1+v.n/6; i++ {
		a := mirArgs{Signed: true, Events: []mirEv{{K: "append", N: 2000}, {K: "record"}, {K: "sleep", N: 1500}, {K: "append", N: 150000}, {K: "record"},
			{K: "sleep", N: 20}, {K: "cut"}, {K: "append", N: 3000}, {K: "record"}, {K: "sleep", N: 5500}, {K: "restore"}, {K: "finish"}}}
		v.do(mirApply, "mirror", a)
	}
	// short datagrams late: the reply line of a results request and the first data arrive together
	for i := 0; i < 1+v.n/6; i++ {
		a := mirArgs{Events: []mirEv{{K: "latesmall"}, {K: "append", N: 2000}, {K: "record"}, {K: "sleep", N: 1500}, {K: "append", N: 3000}, {K: "record"},
			{K: "sleep", N: 800}, {K: "finish"}}}
		v.do(mirApply, "mirror", a)
	}
}

// C04: the finished, fully mirrored remote unit across a restart of the submitting node with the link down
func mirGenRestart(v *verifRun) {
	// the node dies while a remote unit's stdin is being sent, after the executing node acknowledged the unit
	for _, fa := range []int{1, 3} {
		v.do(mirApply, "ackcrash", ackArgs{StdinLen: 40000 * fa, FailAt: fa})
	}
	for i := 0; i < v.n; i++ {
		a := mirArgs{RestartA: true}
		for k := 1 + v.rng.Intn(3); k > 0; k-- {
			a.Events = append(a.Events, mirEv{K: "append", N: []int{500, 4000, 70000}[v.rng.Intn(3)]}, mirEv{K: "record"})
			a.Events = append(a.Events, mirEv{K: "sleep", N: 100 + v.rng.Intn(300)})
		}
		a.Events = append(a.Events, mirEv{K: "finish"})
		if i%2 == 1 {
			a.RestartMode = "shortcopy"
		}
		v.do(mirApply, "mirror", a)
	}
}

func TestVerifMirrorRestart(t *testing.T) {
	v := verifOpen(t, "mirror")
	v.run(mirApply, mirGenRestart)
}

func TestVerifMirror(t *testing.T) {
	v := verifOpen(t, "mirror")
	v.run(mirApply, mirGen)
}
