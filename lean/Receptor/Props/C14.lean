import Receptor.Proofs.StatusRMW
import Receptor.Generated.Facts
/-!
# C14 — status records are updated atomically w.r.t. every other reader and writer

Model: `Receptor.StatusRMW` — any number of threads (goroutines and processes alike: the lock
is the lock *file*), each running a program of `update f` / `save v` / `load` operations made
of micro-steps (acquire · read+apply · truncate · write · release); a schedule interleaves the
micro-steps arbitrarily.  All theorems quantify over every program list and every schedule.
-/
namespace Receptor.StatusRMW

variable {α : Type}

/-- **Tie (translator)**: the order of the file-protocol events in `Save`, `Load`,
`UpdateFullStatus` — the lock (an exclusive `lockedfile` on `<status>.lock`) is taken before the
status file is opened and released (deferred) after it is closed; `UpdateFullStatus` re-reads
the stored record when the file is not empty, applies the callback, truncates, writes;
`UpdateBasicStatus` and `saveStdoutSize` are nothing but an `UpdateFullStatus` with a callback
(no early return); the `BaseWorkUnit` wrappers call the same primitives on the unit's file. -/
theorem C14_facts :
    Receptor.Facts.st_lock = "lockedfile.OpenFile(os.O_CREATE|os.O_WRONLY|os.O_TRUNC);return lockFile, nil"
    ∧ Receptor.Facts.st_lock_name = "filename + \".lock\""
    ∧ Receptor.Facts.st_unlock = "lockFile.Close()"
    ∧ Receptor.Facts.st_save = "lock;defer-unlock;open(os.O_CREATE|os.O_WRONLY|os.O_TRUNC);save;return file.Close()"
    ∧ Receptor.Facts.st_load = "lock;defer-unlock;open(RO);load;return file.Close()"
    ∧ Receptor.Facts.st_update = "lock;defer-unlock;open(os.O_CREATE|os.O_RDWR);seek(0,2);seek(0,0);size > 0:load;apply;seek(0,0);truncate(0);save;return nil"
    ∧ Receptor.Facts.st_basic = "1:return sfd.UpdateFullStatus(filename, func(status *StatusFil;sfd.UpdateFullStatus(filename,func)"
    ∧ Receptor.Facts.st_basic_cb = "status.State = state;status.Detail = detail;if stdoutSize >= 0 { status.StdoutSize = stdoutSize }"
    ∧ Receptor.Facts.st_stdout = "return si.UpdateFullStatus(statusFilename, func(status *Stat;si.UpdateFullStatus(statusFilename,func)"
    ∧ Receptor.Facts.st_bwu = ["Save=RLock;defer-RUnlock;return bwu.status.Save(bwu.statusFileName);bwu.status.Save(bwu.statusFileName)",
        "Load=Lock;defer-Unlock;return bwu.status.Load(bwu.statusFileName);bwu.status.Load(bwu.statusFileName)",
        "UpdateFullStatus=Lock;defer-Unlock;bwu.status.UpdateFullStatus(bwu.statusFileName,statusFunc)",
        "UpdateBasicStatus=Lock;defer-Unlock;bwu.status.UpdateBasicStatus(bwu.statusFileName,state,detail,stdoutSize)"]
    ∧ Receptor.Facts.st_io = "true true true true"
    ∧ Receptor.Facts.st_removals = "stdio_utils.go:os.RemoveAll(path)" := by decide +kernel

/-- the state reached from a fresh unit (`r0` stored) after an arbitrary schedule -/
def reach (r0 : α) (progs : List (List (Op α))) (sched : List Nat) : St α := run (init r0 progs) sched

theorem reach_inv (r0 : α) (progs : List (List (Op α))) (sched : List Nat) : Inv r0 (reach r0 progs sched) :=
  inv_run r0 sched _ (inv_init r0 progs)

theorem reach_acct (r0 : α) (progs : List (List (Op α))) (sched : List Nat) : Acct progs (reach r0 progs sched) :=
  acc_run progs sched _ (acc_init r0 progs)

/-- **mutual_exclusion.** Under every schedule at most one thread is inside an operation (between
taking and releasing the lock). -/
theorem mutual_exclusion (r0 : α) (progs : List (List (Op α))) (sched : List Nat) (t1 t2 : Nat) (x1 x2 : Th α)
    (h1 : (reach r0 progs sched).th[t1]? = some x1) (h2 : (reach r0 progs sched).th[t2]? = some x2)
    (n1 : ¬ x1.pc.isIdle) (n2 : ¬ x2.pc.isIdle) : t1 = t2 := by
  have hi := reach_inv r0 progs sched
  have o1 : (reach r0 progs sched).owner = some t1 := Classical.byContradiction fun h => n1 (hi.others t1 x1 h1 h)
  have o2 : (reach r0 progs sched).owner = some t2 := Classical.byContradiction fun h => n2 (hi.others t2 x2 h2 h)
  rw [o1] at o2; cases o2; rfl

/-- **no_lost_update.** Under every schedule, whenever nobody holds the lock the stored record
is the initial record with *every* write operation started so far applied, one at a time, in
lock-acquisition order — each to the record the previous one stored. -/
theorem no_lost_update (r0 : α) (progs : List (List (Op α))) (sched : List Nat)
    (h : (reach r0 progs sched).owner = none) :
    (reach r0 progs sched).file = some (applyAll (reach r0 progs sched).fns r0) :=
  (reach_inv r0 progs sched).free h

/-- **every_write_is_in_the_log.** Under every schedule, the writes thread `t` contributed to that
sequence are exactly the write operations it has completed (plus the one it is inside), in its
program order; and what it has completed and what it still has to do is its program. -/
theorem every_write_is_in_the_log (r0 : α) (progs : List (List (Op α))) (sched : List Nat) (t : Nat) (x : Th α)
    (h : (reach r0 progs sched).th[t]? = some x) :
    (reach r0 progs sched).fnsOf t = opFns (x.done ++ x.cur) ∧ progs[t]? = some (x.done ++ x.ops) :=
  ⟨(reach_acct r0 progs sched).mine t x h, (reach_acct r0 progs sched).hist t x h⟩

/-- **finished_all_applied.** When every thread has run its whole program, the stored record is
the initial record with all writes of all programs applied in one sequential order that keeps
every program's own order: nothing lost, nothing applied to a stale record. -/
theorem finished_all_applied (r0 : α) (progs : List (List (Op α))) (sched : List Nat)
    (hf : finished (reach r0 progs sched)) :
    (reach r0 progs sched).file = some (applyAll (reach r0 progs sched).fns r0)
    ∧ ∀ t x, (reach r0 progs sched).th[t]? = some x → (reach r0 progs sched).fnsOf t = opFns x.done ∧ progs[t]? = some x.done := by
  have hi := reach_inv r0 progs sched
  have ha := reach_acct r0 progs sched
  constructor
  · apply hi.free
    cases ho : (reach r0 progs sched).owner with
    | none => rfl
    | some t =>
      obtain ⟨x, hx, hne, _⟩ := hi.held t ho
      exact absurd (hf x (List.mem_of_getElem? hx)) hne
  · intro t x hx
    have he : x.ops = [] := hf x (List.mem_of_getElem? hx)
    have hm := ha.mine t x hx
    have hh := ha.hist t x hx
    have hc : x.cur = [] := by
      unfold Th.cur; rw [he]; cases x.pc <;> rfl
    rw [hc, List.append_nil] at hm
    rw [he, List.append_nil] at hh
    exact ⟨hm, hh⟩

/-- **no_torn_read.** Under every schedule, every `Load` saw a complete record: the initial
record with a prefix of the write sequence applied — never an empty or half-written file. -/
theorem no_torn_read (r0 : α) (progs : List (List (Op α))) (sched : List Nat) (r : Option α)
    (h : r ∈ (reach r0 progs sched).reads) :
    ∃ k, k ≤ (reach r0 progs sched).fns.length ∧ r = some (applyAll ((reach r0 progs sched).fns.take k) r0) :=
  (reach_inv r0 progs sched).reads r h

/-- **writer_never_reads_empty.** Under every schedule an update that holds the lock finds a
complete record to re-read (so the in-memory fall-back of `if size > 0` is never what it
builds on after the unit was created). -/
theorem writer_never_reads_empty (r0 : α) (progs : List (List (Op α))) (sched : List Nat) (t : Nat) (x : Th α) (f : α → α)
    (h : (reach r0 progs sched).th[t]? = some x) (hp : x.pc = .acqU f) :
    (reach r0 progs sched).file.isSome = true := by
  have hi := reach_inv r0 progs sched
  have ho : (reach r0 progs sched).owner = some t :=
    Classical.byContradiction fun hn => by have := hi.others t x h hn; rw [hp] at this; exact this
  obtain ⟨x0, hx0, _, hh⟩ := hi.held t ho
  rw [h] at hx0; cases hx0
  rw [hp] at hh
  obtain ⟨pre, _, hfile⟩ := hh
  rw [hfile]; rfl

/-! ### Non-vacuity and what goes wrong without the lock -/

/-- two counters incremented by two threads, three loads by a third, under an adversarial
schedule: both increments are in the record and the loads saw 0, 1 or 2 -/
example :
    let s := reach (0 : Nat) [[.update (· + 1)], [.update (· + 1)], [.load, .load]]
      [0, 1, 2, 0, 0, 1, 0, 0, 2, 1, 2, 2, 1, 2, 1, 1, 1, 1, 2, 2, 2]
    s.file = some 2 ∧ s.owner = none ∧ s.reads = [some 1, some 2] ∧ (∀ x ∈ s.th, x.ops = []) := by decide

/-- a `save` serialised after an update replaces the record (it is not a read-modify-write) -/
example :
    let s := reach (0 : Nat) [[.update (· + 5)], [.save 1]] [0, 1, 0, 0, 0, 0, 1, 1, 1, 1]
    s.file = some 1 ∧ s.owner = none := by decide

end Receptor.StatusRMW
